#!/venv/bin/python
"""Regenerates MANIFEST.json from the table below (kept as code so it stays valid and in sync)."""
import json, os
HERE = os.path.dirname(os.path.abspath(__file__))

NA = {
 'C01': "Emitted bits are a pure function of (ISA definition, operand values, statement address): no schedule, clock, fault, I/O outcome or history can change them, so a simulator has nothing to control; deciding it needs an independent encoder over generated ISAs (differential testing), a different technique. Its 'depends on nothing else' clause is exercised by C15's perturbations.",
 'C02': "Addresses and label values are a pure function of the program text; the two passes are sequential phases of one deterministic computation with nothing to interleave or fault.",
 'C03': "Window arithmetic is a pure function of (program, start, end, fill). The only world-dependent facet (output written once, completely, replacing any earlier file) is covered by C14/C15.",
 'C04': "Overlap detection is a pure function of the placed address ranges; no environment, fault or history dimension.",
 'C05': "Zone confinement/sequencing is a pure function of program and zone layout; the multi-file facet (included file starts in GLOBAL, includer's zone resumes) is exercised under C17.",
 'C06': "Lexical scoping is a pure function of the program text; the cross-file facet (file labels invisible across an include) is exercised under C17.",
 'C07': "Expression value is a pure function of the expression text; deciding it is grammar-based generation against an independent evaluator, not simulation.",
 'C10': "A relation between two assemblies of two texts (macro call vs hand expansion): pure function of ISA and program text.",
 'C11': "Emitted data bytes are a pure function of directive text and ISA options.",
 'C12': "Accept/reject of an operand value is a pure function of the ISA constraints, the value and the statement address (the fail-closed facet for overflowing values is exercised under C14).",
 'C13': "Variant/operand selection is a pure function of the order written in the ISA definition; its independence from hash order is exercised under C15.",
 'C16': "All output formats are pure renderings of the same assembled line list; the sink (stdout/file) is irrelevant to the relation between them.",
 'C18': "A metamorphic relation between two program texts; pure function of the texts.",
 'C19': "Acceptance of a definition / version gate is a pure predicate of the definition text and two version constants.",
}

CHECKS = {
 'C08': {
  'category': 'exploration',
  'text': "History-driven simulation (fault-free): a Hypothesis rule-based state machine, seeded per sub-seed, generates sequences of conditional directives, symbol definitions from all three sources, marker lines, constant/label/zone definitions with later uses, mute changes and ill-formed directives; a small reference model (frames {enclosing active, branch taken, selected}, conditions evaluated once when reached) is stepped in lockstep and after EVERY operation the prefix is assembled by the real CLI in the simulator and compared (exit status, sparse image). Idiom rules bias the search towards definitions that flip their own condition, late definitions, mute toggles and whole chains in unselected code; sampled complete histories are re-assembled by real interpreters (real hash seeds, python -O/-OO). Seeded search over histories, not enumeration: evidence, not proof.",
  'design_ref': 'DESIGN.md section 4 (C08)',
  'note': "Trusts the 60-line reference model and the exclusions listed in the evidence assumptions (undefined symbols in #if, string comparisons, unclosed chains, conditionals around #include which C17 covers).",
  'technique': 'deterministic simulation, history-driven: seeded Hypothesis state machine + executable reference model checked after every operation against the real CLI run in a forked simulated process',
 },
 'C09': {
  'category': 'exploration',
  'text': "History-driven simulation (fault-free): a seeded Hypothesis state machine generates definitions arriving from the ISA file, the command line and #define (chains, diamonds, cycles, redefinitions), constants whose names collide with symbol names (prefix/suffix/infix/identical-but-defined-later) and use lines over whatever is usable at that moment; a whole-word fixpoint substitution model is stepped in lockstep; after every operation the prefix is assembled by the real CLI in the simulator and exit status and emitted bytes must equal the model's; redefinitions (incl. identical text, duplicate -D, -D vs ISA) and cyclic uses are side probes that must be rejected; histories run under seeded set-iteration orders, with hex-named environment variables, CR LF sources and blanks in -D; sampled complete histories are re-assembled by real interpreters (real hash seeds, python -O/-OO).",
  'design_ref': 'DESIGN.md section 4 (C09)',
  'note': "Trusts the substitution model and its expression evaluator (literals, +, *, parentheses only).",
  'technique': 'deterministic simulation, history-driven: seeded Hypothesis state machine + whole-word substitution reference model checked after every operation against the real CLI run in a forked simulated process',
 },
 'C14': {
  'category': 'fault_enumeration',
  'text': "Per generated (ISA, program, options) world the check enumerates EVERY single I/O fault over every file-system event of the fault-free run (open/stat errors, EIO after k bytes, truncation at every line boundary, ENOSPC/EROFS/EISDIR on writes, ENOSPC after k bytes, EIO at close, EPIPE on stdout), inserts every zero-length directive form at every line position, applies E1-E4 corruptions whose verdict is known, and samples textual corruptions and fault pairs; each run is one simulated CLI process of the real package under a step clock. Also explored: file-system states around the output path (read-only image, missing directory, path is a directory), line- vs block-buffered stdout with EPIPE at every write, empty address windows, and a cross-process tier that repeats the known-verdict cases in real interpreters under python -O/-OO and real hash seeds. Oracle: terminates within the step budget (the fault-free run too); failure => image byte-identical to its pre-state and never successfully opened for writing; success => image written exactly once, completely; E1-E4 => rejected. Exhaustive per world for single faults, sampled across worlds: evidence, not proof.",
  'design_ref': 'DESIGN.md section 4 (C14), section 2',
  'note': "Trusts SimFS as a model of the Python-level I/O seam (cross-validated against the real file system by the C15 cross-process tier); C code (re) is invisible to the step clock - the one recorded finding there is decided by a wall clock.",
  'technique': 'deterministic simulation with fault injection: seeded worlds, exhaustive single-fault enumeration per world over the simulated file system, step-clock termination bound, minimised replay files',
 },
 'C15': {
  'category': 'exploration',
  'text': "For each generated multi-file world the reference run is compared with runs that perturb, singly and combined, everything the property names: iteration order of every reachable set (SimSet policies per creation site), order/spelling/duplication/symlink aliases of -I directories, cwd and project location, unrelated environment variables/HOME, default text and stdout encodings, the simulated clock, a pre-existing output file, output writes that are cut short or fail (a run that still reports success must have produced the reference outputs); inputs may contain text outside ASCII (comments, strings, ISA comments), so the locale matters wherever the tool lets it; a cross-process tier runs the same world materialised on the real file system in fresh interpreters under different real PYTHONHASHSEED values (which also cross-validates SimFS against the real FS). Exit status, image and every pretty-print format (stdout or file) must be byte-identical. Seeded search over schedules/environments.",
  'design_ref': 'DESIGN.md section 4 (C15)',
  'note': "In-process set-order control reaches set(...) calls and module-level set constants; set literals/comprehensions inside functions are covered only by the real-hash-seed tier. Echoes of input paths are normalised; stderr is compared by success/failure only.",
  'technique': 'deterministic simulation: seeded schedule (set-iteration order) and environment perturbation of one simulated process vs a reference run, plus real-hash-seed cross-process replay',
 },
 'C17': {
  'category': 'exploration',
  'text': "A logical multi-file program is generated once and materialised twice in the simulated file system: the split world (real #include lines, scoped labels, files spread over several include directories, includes wrapped in conditionals and mute regions) and the in-place reference (pasted text, scoped labels renamed to unique globals, zone brackets). Both are assembled by the real code; images, hex output and the values of all global labels must agree under every schedule (SimSet order of the include-directory set, -I order/spelling/duplicates/aliases). Negative worlds (cross-file file labels, local-label leaks both ways, double inclusion incl. via nested files and through include guards, cycles, missing and ambiguous names incl. symlinked duplicates) and I/O faults on include files must be rejected with the image untouched; negative worlds are repeated in real interpreters under python -O/-OO. Schedules also cover a symlinked main file, the source directory supplied again, another cwd with decoy files, and CR LF files.",
  'design_ref': 'DESIGN.md section 4 (C17)',
  'note': "The reference is produced by the generator, not by an independent assembler: both worlds run the same real code. Excluded: same file under two names, include lines with trailing text.",
  'technique': 'deterministic simulation: split-vs-in-place differential on a simulated multi-directory file system under seeded set-order / -I schedules and injected include-file faults',
 },
 'C20': {
  'category': 'exploration',
  'text': "Generated vocabularies (names that are prefixes of one another, contain '.', '_', digits, mixed case; with and without macros/registers/predefined names) are turned into both editor packages by the real generators running in the simulator under seeded schedules (SimSet order of keyword/mnemonic/register sets, directory listing order of temp and resource dirs, temp-dir name, clock) and in fresh interpreters under real hash seeds. Every file must be well-formed (JSON/YAML/plist/XML/zip), free of ##PLACEHOLDER## tokens, and a classification oracle built from the generated grammar itself must classify each vocabulary word in full with the right scope (alone, in operand position and after another operation on the same line) and no near-miss identifier as vocabulary. Histories of two runs sharing the file system (earlier run failed / hit an I/O fault / was for a bigger or another ISA; ISA file older than the leftovers) must produce exactly the pristine outputs, and a single-fault tier over every written file requires that a run reporting success produced a complete package.",
  'design_ref': 'DESIGN.md section 4 (C20)',
  'note': "The oracle uses Python re and first-match-wins over the grammar's own rule order as the model of the editors' engines; one open finding (cross-class dotted prefix) is attributed only when every failing probe is explained by exactly its trigger.",
  'technique': 'deterministic simulation: generators run in a simulated file system under seeded set-order / listing-order / clock schedules and real hash seeds; outputs checked for well-formedness and by a grammar-derived classification oracle',
 },
}


def main():
    checks = []
    for pid in sorted(CHECKS):
        c = CHECKS[pid]
        checks.append({
            'property_id': pid,
            'quick_cmd': f'./check {pid} --tier quick',
            'thorough_cmd': f'./check {pid} --tier thorough',
            'evidence_file': f'evidence/{pid}.json',
            'replay_cmd_template': f'./check {pid} --replay {{path}}',
            'engine': 'simworld',
            'level_claimed': {'category': c['category'], 'text': c['text'], 'design_ref': c['design_ref']},
            'level_note': c['note'],
            'technique': c['technique'],
        })
    m = {
        'version': 1,
        'setup_cmd': './setup.sh',
        'hooks': {
            'guard': 'BESPOKEASM_VERIF',
            'enable': 'no source hooks are needed: every seam (file system, cwd/env, clock, set order, stdout, step clock) is patched from outside in a forked child; the guard name is reserved only',
            'baseline_off_cmd': 'cd /repo && env -u BESPOKEASM_VERIF /venv/bin/python -m pytest -ra -q -p no:cacheprovider --timeout=900 --continue-on-collection-errors',
            'source_commits': [],
            'add_only': True,
        },
        'engines': [{
            'name': 'simworld',
            'path': 'sim/',
            'serves_properties': sorted(CHECKS),
            'kind_free_text': 'deterministic simulation with fault injection: one forked child per simulated CLI run of the real bespokeasm package, with in-memory file system, simulated cwd/env/clock/set-iteration order, fault plan and step clock, all driven by one seed',
        }],
        'checks': checks,
        'not_applicable': [{'property_id': k, 'reason': NA[k]} for k in sorted(NA)],
        'notes': 'See DESIGN.md. Exit codes of every check: 0 held (possibly with KNOWN-FINDING lines), 1 VIOLATION, 2 harness problem (never a pass).',
    }
    with open(os.path.join(HERE, 'MANIFEST.json'), 'w') as f:
        json.dump(m, f, indent=1)
        f.write('\n')

if __name__ == '__main__':
    main()
