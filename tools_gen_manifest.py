#!/venv/bin/python
"""Regenerates MANIFEST.json from the table below (kept as code so it stays valid and in sync)."""
import json, os
HERE = os.path.dirname(os.path.abspath(__file__))

NA = {
 'C01': "Emitted bits are a pure function of (ISA definition, operand values, statement address): no schedule, clock, fault, I/O outcome or history can change them, so a simulator has nothing to control; deciding it needs an independent encoder over generated ISAs (differential testing), a different technique. Its 'depends on nothing else' clause is exercised by C15's perturbations.",
 'C02': "Addresses and label values are a pure function of the program text; the two passes are sequential phases of one deterministic computation with nothing to interleave or fault.",
 'C03': "Window arithmetic is a pure function of (program, start, end, fill). The only world-dependent facet (output written once, completely, replacing any earlier file) is covered by C14/C15.",
 'C04': "Overlap detection is a pure function of the placed address ranges; no environment, fault or history dimension.",
 'C05': "Zone confinement/sequencing is a pure function of program and zone layout; the multi-file facet (included file starts in GLOBAL, includer's zone resumes) is exercised under C17.",
 'C06': "Lexical scoping is a pure function of the program text; the cross-file facet (file labels invisible across an include) is exercised under C17.",
 'C07': "Expression value is a pure function of the expression text; deciding it is grammar-based generation against an independent evaluator, not simulation.",
 'C10': "A relation between two assemblies of two texts (macro call vs hand expansion): pure function of ISA and program text.",
 'C11': "Emitted data bytes are a pure function of directive text and ISA options.",
 'C12': "Accept/reject of an operand value is a pure function of the ISA constraints, the value and the statement address (the fail-closed facet for overflowing values is exercised under C14).",
 'C13': "Variant/operand selection is a pure function of the order written in the ISA definition; its independence from hash order is exercised under C15.",
 'C16': "All output formats are pure renderings of the same assembled line list; the sink (stdout/file) is irrelevant to the relation between them.",
 'C18': "A metamorphic relation between two program texts; pure function of the texts.",
 'C19': "Acceptance of a definition / version gate is a pure predicate of the definition text and two version constants.",
}

CHECKS = {
 'C14': {
  'category': 'fault_enumeration',
  'text': "Per generated (ISA, program, options) world the check enumerates EVERY single I/O fault over every file-system event of the fault-free run (open/stat errors, EIO after k bytes, truncation at every line boundary, ENOSPC/EROFS/EISDIR on writes, ENOSPC after k bytes, EIO at close, EPIPE on stdout), inserts every zero-length directive form at every line position, applies E1-E4 corruptions whose verdict is known, and samples textual corruptions and fault pairs; each run is one simulated CLI process of the real package under a step clock. Oracle: terminates within the step budget; failure => image byte-identical to its pre-state and never opened for writing; success => image written exactly once, completely; E1-E4 => rejected. Exhaustive per world for single faults, sampled across worlds: evidence, not proof.",
  'design_ref': 'DESIGN.md section 4 (C14), section 2',
  'note': "Trusts SimFS as a model of the Python-level I/O seam (cross-validated against the real file system by the C15 cross-process tier); C code (re) is invisible to the step clock - the one recorded finding there is decided by a wall clock.",
  'technique': 'deterministic simulation with fault injection: seeded worlds, exhaustive single-fault enumeration per world over the simulated file system, step-clock termination bound, minimised replay files',
 },
}

def main():
    checks = []
    for pid in sorted(CHECKS):
        c = CHECKS[pid]
        checks.append({
            'property_id': pid,
            'quick_cmd': f'./check {pid} --tier quick',
            'thorough_cmd': f'./check {pid} --tier thorough',
            'evidence_file': f'evidence/{pid}.json',
            'replay_cmd_template': f'./check {pid} --replay {{path}}',
            'engine': 'simworld',
            'level_claimed': {'category': c['category'], 'text': c['text'], 'design_ref': c['design_ref']},
            'level_note': c['note'],
            'technique': c['technique'],
        })
    m = {
        'version': 1,
        'setup_cmd': './setup.sh',
        'hooks': {
            'guard': 'BESPOKEASM_VERIF',
            'enable': 'no source hooks are needed: every seam (file system, cwd/env, clock, set order, stdout, step clock) is patched from outside in a forked child; the guard name is reserved only',
            'baseline_off_cmd': 'cd /repo && env -u BESPOKEASM_VERIF /venv/bin/python -m pytest -ra -q -p no:cacheprovider --timeout=900 --continue-on-collection-errors',
            'source_commits': [],
            'add_only': True,
        },
        'engines': [{
            'name': 'simworld',
            'path': 'sim/',
            'serves_properties': sorted(CHECKS),
            'kind_free_text': 'deterministic simulation with fault injection: one forked child per simulated CLI run of the real bespokeasm package, with in-memory file system, simulated cwd/env/clock/set-iteration order, fault plan and step clock, all driven by one seed',
        }],
        'checks': checks,
        'not_applicable': [{'property_id': k, 'reason': NA[k]} for k in sorted(NA)],
        'notes': 'See DESIGN.md. Exit codes of every check: 0 held (possibly with KNOWN-FINDING lines), 1 VIOLATION, 2 harness problem (never a pass).',
    }
    with open(os.path.join(HERE, 'MANIFEST.json'), 'w') as f:
        json.dump(m, f, indent=1)
        f.write('\n')

if __name__ == '__main__':
    main()
