"""C20 - Generated editor extensions are well-formed and mirror the ISA vocabulary.

Workload: generated vocabularies (mnemonics / macros / registers / predefined names that are prefixes of one another,
contain '.', '_' and digits; with and without each class) -> `generate-extension vscode|sublime` run in the simulator
under several schedules: SimSet policies for the keyword / mnemonic / register sets, directory listing order (temp dir
and package resource dir), temp-dir name, epoch; plus real hash seeds in fresh interpreters (cross-process tier).
Oracle: (1) every generated file is well-formed, (2) no ##PLACEHOLDER## token survives, (3) a small classification
oracle built from the generated grammar itself (first-match-wins over the grammar's own rule order, Python `re`)
classifies every vocabulary word in full with the right scope and classifies near-miss identifiers as none of them.
"""
import copy
import io
import json
import os
import plistlib
import random
import re
import shutil
import subprocess
import xml.dom.minidom
import zipfile

from sim.runner import H
from sim import child, gen

ID = 'C20'
LEVEL = 'exploration'
TIERS = {
    'quick': {'subseeds': 192, 'schedules': 3, 'xproc_every': 6, 'hashseeds': 3, 'wall_budget': 240, 'min_runs': 150},
    'thorough': {'subseeds': 3000, 'schedules': 6, 'xproc_every': 8, 'hashseeds': 6, 'wall_budget': 3000,
                 'min_runs': 300},
}
RULE = ('one case = one generated ISA vocabulary x one editor target x one schedule (SimSet seed, directory-listing '
        'seed, temp-dir name, epoch) or, cross-process, one real PYTHONHASHSEED; every vocabulary word and its '
        'near-misses are probed against the generated grammar; non-trivial = the vocabulary has >= 2 names in some '
        'class AND the schedule is not the identity; distinct = distinct (vocabulary digest, target, alternation '
        'orders actually produced) triples')
ASSUMPTIONS = [
    'the classification oracle uses Python re, not Oniguruma / the Sublime engine; the constructs the templates use ((?i), \\b, fixed-width look-behind) are common to all three',
    'first-match-wins over the grammar\'s own rule order at the earliest position is used as the model of TextMate/Sublime rule selection',
    'generation under a pre-1980 epoch is observed only (ZipFile refuses such timestamps); the property quantifies over ISA definitions',
    'near-miss probes exclude strings that are themselves vocabulary words or contain a "." (a configured word followed by ".x" legitimately starts with that word)',
]
COMPONENTS = {'real': ['bespokeasm.configgen (vscode, sublime), AssemblerModel', 'yaml', 'json', 'zipfile', 'shutil',
                       'importlib.resources (real package resource files, read-only pass-through)'],
              'stub': ['output file system (SimFS)', 'tempfile.mkdtemp', 'directory listing order', 'clock / file '
                       'timestamps', 'HOME/cwd/env', 'set iteration order (SimSet)', 'process boundary (fork)']}

PDIR = '/sim/p'
OUT = '/sim/out'
MN_POOL = ['nop', 'ld', 'ld.b', 'ldx', 'ldi', 'st', 'st.w', 'add', 'addc', 'jmp', 'j', 'mov', 'mov.w', 'inc', 'hlt',
           'call', 'ret', 'sta', 'b_2', 'cmp', 'out', 'in', 'push', 'pop', 'swap', 'jz', 'jnz', 'l', 'ld.bx', 'a.b',
           'x1', 'mov2', 'ADD2', 'Sub', '_nop', 'st_', 'ld_x', 'j_']
MACRO_POOL = ['push2', 'ldw', 'mov3', 'inc2', 'clr', 'jsr', 'ldq.w', 'pushx', 'po', 'jmp.far', 'cl', 'Clr2', '_save',
              'rest_', 'm_x', 'cpy', 'cpy.w', 'sw', 'sw.x']
REG_POOL = ['a', 'b', 'x', 'ab', 'sp', 'a1', 'ix', 'mar', 'r0', 'r1', 'hl', 'h', 'r10', 'A2', 'abx', '_r', 'r_', 'x_1', 'b0', 'b10',
            'AH', 'DH', 'c0']
DESCRIPTIONS = ['vocab ISA', 'A CPU: the "best" one', 'line one\nline two: with colon\n# not a comment', 'tabs\tand \'quotes\'',
                'multi\n\nparagraph\n', '', 'x' * 90, 'key: value', '- list item', '%YAML in text', '{braces} [brackets]',
                'caf\u00e9 CPU \u2013 f\u00fcr Z\u00fcge', '\u6f22\u5b57 ISA', 'na\u00efve \u00b5-coded core']
INSTR_SCOPE = 'variable.function.instruction'
MACRO_SCOPE = 'variable.function.macro'
REG_SCOPE = 'variable.language.register'
DIR_SCOPE = 'keyword.other.directive'
TYPE_SCOPE = 'storage.type'
PRE_SCOPE = 'keyword.control.preprocessor'
VOCAB_SCOPES = {INSTR_SCOPE, MACRO_SCOPE, REG_SCOPE, DIR_SCOPE, TYPE_SCOPE, PRE_SCOPE}
COMPILER_DIRECTIVES = ['org', 'memzone', 'align']
BYTECODE_DIRECTIVES = ['fill', 'zero', 'zerountil', 'byte', '2byte', '4byte', '8byte', 'cstr', 'asciiz']
PREPROCESSOR_DIRECTIVES = ['include', 'require', 'create_memzone', 'define', 'if', 'elif', 'else', 'endif', 'ifdef',
                           'ifndef', 'mute', 'unmute', 'emit']


def gen_vocab_isa(rnd):
    nreg = rnd.choice([0, 0, 1, 2, 3, 5, 7])
    regs = rnd.sample(REG_POOL, nreg)
    n_i = rnd.randrange(1, 9)
    mn = rnd.sample(MN_POOL, n_i)
    lower = set()
    mn = [m for m in mn if not (m.lower() in lower or lower.add(m.lower()))]
    n_m = rnd.choice([0, 0, 1, 2, 3])
    macros = [m for m in rnd.sample(MACRO_POOL, n_m) if m.lower() not in lower]
    if len(mn) % 5 == 2:
        # a macro whose name is the dotted stem of a native mnemonic (macro `st`, instruction `st.w`): the mirror image
        # of the pairing behind the open finding, which the unchanged generators classify correctly
        stem, dotted = [('st', 'st.w'), ('mov', 'mov.w'), ('ld', 'ld.b'), ('a', 'a.b')][(len(mn) + nreg) % 4]
        if stem not in regs:
            mn = [m for m in mn if m.lower() not in (stem, dotted)] + [dotted]
            macros = [m for m in macros if m.lower() not in (stem, dotted)] + [stem]
    general = {'address_size': 16, 'endian': 'big', 'registers': regs, 'min_version': '0.3.0'}
    if rnd.random() < 0.7:
        general['identifier'] = {'name': rnd.choice(['tiny', 'sim-isa', 'my_cpu', 'z 80', '.dot8', 'q"t', 'b\\s', "o'k"]),
                                 'version': rnd.choice(['1.0.0', '0.2.11']),
                                 'extension': rnd.choice(['asm', 's', 'tasm'])}
    if nreg == 0 and rnd.random() < 0.5:
        del general['registers']
    opsets = {'imm': {'operand_values': {'imm8': {'type': 'numeric', 'argument': {'size': 8, 'byte_align': True}}}}}
    if regs:
        opsets['regs'] = {'operand_values': {f'r_{r}': {'type': 'register', 'register': r,
                                                        'bytecode': {'value': i % 8, 'size': 3}}
                                             for i, r in enumerate(regs)}}
    enum_keys = []
    if rnd.random() < 0.4:
        enum_keys = rnd.sample(['cs', 'nz', 'eq', 'pl', 'mi_x'], rnd.randrange(2, 4))
        enum_keys = [k for k in enum_keys if k not in regs]
        opsets['flags'] = {'operand_values': {'flag': {'type': 'enumeration', 'bytecode': {
            'size': 3, 'value_dict': {k: j for j, k in enumerate(enum_keys)}}, 'argument': {
            'size': 8, 'byte_align': True, 'value_dict': {k: j for j, k in enumerate(enum_keys)}}}}}
    instructions = {}
    for i, m in enumerate(mn):
        cfg = {'bytecode': {'value': i, 'size': 8}}
        if enum_keys and i == len(mn) - 1:
            instructions[m] = {'bytecode': {'value': i % 32, 'size': 5},
                               'operands': {'count': 1, 'operand_sets': {'list': ['flags']}}}
            continue
        c = rnd.randrange(3)
        if c == 1:
            cfg['operands'] = {'count': 1, 'operand_sets': {'list': ['imm']}}
        elif c == 2 and regs:
            cfg = {'bytecode': {'value': i % 32, 'size': 5},
                   'operands': {'count': 1, 'operand_sets': {'list': ['regs']}}}
        instructions[m] = cfg
    isa = {'description': rnd.choice(DESCRIPTIONS), 'general': general, 'operand_sets': opsets, 'instructions': instructions}
    if macros:
        first = mn[0]
        kind = instructions[first].get('operands', {}).get('operand_sets', {}).get('list', [None])[0]
        body = [first if kind is None else (f'{first} 1' if kind == 'imm' else (
            f'{first} {enum_keys[0]}' if kind == 'flags' else f'{first} {regs[0]}'))]
        isa['macros'] = {m: [{'operands': {'count': 0}, 'instructions': body + body}] for m in macros}
    elif len(mn) % 3 == 0:
        # the section is there but holds nothing (an empty mapping, or a header whose entries are commented out)
        isa['macros'] = {} if len(mn) % 2 else None
    pre = {}
    if rnd.random() < 0.5:
        pre['constants'] = [{'name': n, 'value': 3} for n in rnd.sample(['K1', 'SIZE', 'BASE', 'io.port', 'K'], 2)]
    if rnd.random() < 0.3:
        pre['memory_zones'] = [{'name': 'ZA', 'start': 0x100, 'end': 0x1ff}]
    if rnd.random() < 0.3:
        pre['data'] = [{'name': 'pdata', 'address': 0x2000, 'value': 0, 'size': 2}]
    if pre:
        isa['predefined'] = pre
    return isa


def effective_isa(case):
    isa = copy.deepcopy(case['isa'])
    if 'instr_keep' in case:
        isa['instructions'] = {k: v for k, v in isa['instructions'].items() if k in case['instr_keep']}
    if 'macro_keep' in case and isa.get('macros'):
        isa['macros'] = {k: v for k, v in isa['macros'].items() if k in case['macro_keep']}
        if not isa['macros']:
            del isa['macros']
    return isa


def vocab_of(isa):
    outsiders = []
    for os_ in isa.get('operand_sets', {}).values():
        for op in os_.get('operand_values', {}).values():
            if op.get('type') == 'enumeration':
                outsiders += list(op.get('bytecode', {}).get('value_dict', {}))
    return {'instructions': [m.lower() for m in isa['instructions']],
            'macros': [m.lower() for m in isa.get('macros') or {}],
            'registers': list(isa['general'].get('registers') or []),
            'outsiders': outsiders}


def build_world(case):
    isa = effective_isa(case)
    fmt = case.get('fmt', 'json')
    name = 'isa.' + fmt
    sched = case.get('sched', {})
    argv = ['bespokeasm', 'generate-extension', case['target'], '-c', name] + (
        [] if case.get('default_dir') else ['-d', OUT]) + list(case.get('opts', []))
    pre = case.get('_state') or {}
    files = dict(pre.get('files', {}))
    files[f'{PDIR}/{name}'] = gen.isa_text(isa, fmt)      # ASCII only (\u escapes): reading it is locale independent
    w = {'files': files, 'dirs': list(pre.get('dirs', [])) + ([] if case.get('no_out_dir') else [OUT]) + [
            '/sim/home', '/sim/tmp'],
         'argv': argv, 'cwd': PDIR, 'env': {'HOME': '/sim/home'}, 'epoch': sched.get('epoch', 1.7e9),
         'set_seed': sched.get('set_seed'), 'list_seed': sched.get('list_seed'),
         'tmp_names': sched.get('tmp_names', []), 'step_budget': 6_000_000, 'faults': list(case.get('faults', [])),
         'resource_mtime': sched.get('resource_mtime'), 'encoding': sched.get('encoding', 'utf-8'),
         'stdout_encoding': 'utf-8', 'mtimes': dict(pre.get('mtimes', {}))}
    if case.get('isa_mtime') is not None:
        w['mtimes'][f'{PDIR}/{name}'] = case['isa_mtime']
    return w


# ---- grammar oracle --------------------------------------------------------------------------------
class Rule:
    __slots__ = ('name', 'scope', 'rx', 'nested', 'inner', 'end', 'pop')

    def __init__(self, name, scope, pattern, nested=None, inner=None, end=None, pop=False):
        self.name = name
        self.scope = scope
        self.rx = re.compile(pattern)
        self.nested = nested or []      # preprocessor line: rules applied right after the '#'
        self.inner = inner or []        # instruction / macro: rules applied to the operands
        self.end = re.compile(end) if end else None     # TextMate begin/end rule: where the operand context ends
        self.pop = pop                  # Sublime: this (zero-width) rule pops the operand context


def vscode_rules(grammar):
    repo = grammar['repository']

    def conv(pat, depth=0):
        out = []
        if 'include' in pat:
            key = pat['include'].lstrip('#')
            if key in repo and depth < 4:
                out.extend(conv(repo[key], depth + 1))
            return out
        if 'begin' in pat:
            scope = pat.get('beginCaptures', {}).get('0', {}).get('name') or pat.get('beginCaptures', {}).get(
                '1', {}).get('name') or pat.get('name')
            nested, inner = [], []
            if pat.get('name') == 'meta.preprocessor':
                for p in pat.get('patterns', []):
                    nested.extend(conv(p, depth + 1))
            elif pat.get('name') == 'meta.function' and depth <= 1:
                for p in pat.get('patterns', []):
                    inner.extend(conv(p, depth + 2))
            out.append(Rule(pat.get('name', '?'), scope, pat['begin'], nested, inner,
                            end=pat.get('end') if inner else None))
        elif 'match' in pat:
            out.append(Rule(pat.get('name', '?'), pat.get('name'), pat['match']))
        elif 'patterns' in pat:
            for p in pat['patterns']:
                out.extend(conv(p, depth + 1))
        return out
    rules = []
    for p in repo['main']['patterns']:
        rules.extend(conv(p))
    return rules


def sublime_rules(syntax):
    ctx = syntax['contexts']

    def conv(items, depth=0):
        out = []
        for it in items:
            if 'include' in it:
                if it['include'] in ctx and depth < 4:
                    out.extend(conv(ctx[it['include']], depth + 1))
            elif 'match' in it:
                nested, inner = [], []
                if it.get('scope') == 'punctuation.definition.preprocessor' and isinstance(it.get('push'), list):
                    nested = conv(it['push'], depth + 1)
                elif it.get('scope') in (INSTR_SCOPE, MACRO_SCOPE) and isinstance(it.get('push'), list) and depth <= 1:
                    inner = conv(it['push'], depth + 2)
                out.append(Rule(it.get('scope', '?'), it.get('scope'), it['match'], nested, inner,
                                pop=bool(it.get('pop'))))
        return out
    return conv(ctx['main'])


def classify(rules, text, pos=0):
    """first-match-wins at the earliest position; returns (scope, matched text, start) or None"""
    best = None
    for order, r in enumerate(rules):
        m = r.rx.search(text, pos)
        if m is None:
            continue
        key = (m.start(), order)
        if best is None or key < best[0]:
            best = (key, r, m)
    if best is None:
        return None
    _, r, m = best
    if r.nested:
        inner = classify(r.nested, text, m.end())
        if inner is not None:
            return inner
    return (r.scope, m.group(0), m.start())


def first_match(rules, text, pos):
    best = None
    for order, r in enumerate(rules):
        for m in r.rx.finditer(text, pos):
            if m.end() == m.start():
                continue            # zero-width (look-ahead pop rules)
            key = (m.start(), order)
            if best is None or key < best[0]:
                best = (key, r, m)
            break
    return best


def classify_operand(rules, mnemonic, operand):
    """scope of `operand` when it is written as the operand of `mnemonic`"""
    text = f'{mnemonic} {operand}'
    top = first_match(rules, text, 0)
    if top is None or top[1].scope not in (INSTR_SCOPE, MACRO_SCOPE) or not top[1].inner:
        return None
    inner = first_match(top[1].inner, text, top[2].end())
    if inner is None:
        return None
    return (inner[1].scope, inner[2].group(0), inner[2].start() - len(mnemonic) - 1)


def classify_second(rules, first, second):
    """scope of `second` when it follows the operation `first` on the same line (compound line): the operand context of
    `first` must end in front of it (TextMate `end` / Sublime `pop` look-ahead) and the main rules must then claim it"""
    text = f'{first} {second}'
    top = first_match(rules, text, 0)
    if top is None or top[1].scope not in (INSTR_SCOPE, MACRO_SCOPE) or not top[1].inner:
        return None
    rule, pos = top[1], top[2].end()
    inner = first_match([r for r in rule.inner if not r.pop], text, pos)
    ends = []
    if rule.end is not None:
        m = rule.end.search(text, pos)
        if m:
            ends.append(m.start())
    for order, r in enumerate(rule.inner):
        if r.pop:
            m = r.rx.search(text, pos)
            if m:
                # a pop rule listed after the claiming rule loses a tie at the same position
                later = inner is not None and m.start() == inner[2].start() and order > rule.inner.index(inner[1])
                if not later:
                    ends.append(m.start())
    pe = min(ends) if ends else None
    if pe is not None and (inner is None or pe <= inner[2].start()):
        after = first_match(rules, text, pe)
        if after is None:
            return None
        return (after[1].scope, after[2].group(0), after[2].start() - len(first) - 1)
    if inner is None:
        return None
    return (inner[1].scope, inner[2].group(0), inner[2].start() - len(first) - 1)


def near_misses(word, vocab_lower):
    out = []
    for cand in (word + 'q', 'q' + word, word[:-1], word.replace('.', 'x') if '.' in word else None,
                 word + '_', word + '9', 'do' + word, word + 'x1', 'my_' + word, word + '_2'):
        if not cand or '.' in cand or cand.lower() in vocab_lower or not re.match(r'^[A-Za-z_]\w*$', cand):
            continue
        out.append(cand)
    return out


def check_grammar(rules, vocab, target):
    """returns list of violation classes"""
    v = []
    detail = []
    allwords = set(w.lower() for k, ws in vocab.items() if k != 'outsiders' for w in ws)
    allwords |= set(COMPILER_DIRECTIVES + BYTECODE_DIRECTIVES + PREPROCESSOR_DIRECTIVES)

    def expect(word, scope, cls):
        res = classify(rules, word)
        if res is None or res[0] != scope or res[1].lower() != word.lower() or res[2] != 0:
            v.append(f'CL-{cls}-not-classified-in-full')
            detail.append((word, res, cls))
    for w in vocab['instructions']:
        expect(w, INSTR_SCOPE, 'instruction')
        expect(w.upper(), INSTR_SCOPE, 'instruction')
    for w in vocab['macros']:
        expect(w, MACRO_SCOPE, 'macro')
    # registers are probed where registers occur: in operand position (the rule order inside an instruction's
    # operand context is part of the grammar); a register alone on a line is probed only when no instruction can
    # carry it (it is not valid assembly, and the Sublime main context deliberately tries numbers first)
    carriers = [m for m in vocab['instructions'] if '.' not in m][:2]
    if not carriers and target == 'vscode':
        for w in vocab['registers']:
            expect(w, REG_SCOPE, 'register')
    for mn in carriers:
        for w in vocab['registers']:
            if w.lower() == mn.lower():
                continue
            res = classify_operand(rules, mn, w)
            if res is None or res[0] != REG_SCOPE or res[1].lower() != w.lower() or res[2] != 0:
                v.append('CL-register-operand-not-classified-in-full')
                detail.append((f'{mn} {w}', res, 'register-operand'))
    # compound lines: an operation that follows another operation on the same line keeps its own class
    for mn in carriers[:1]:
        for cls, scope, words in (('instruction', INSTR_SCOPE, vocab['instructions']), ('macro', MACRO_SCOPE, vocab['macros'])):
            for w0 in words:
                # mnemonics are case-insensitive wherever they stand; also as the SECOND operation of a line
                for w in ([w0, w0.upper(), w0.capitalize()] if cls == 'instruction' else [w0]):
                    res = classify_second(rules, mn, w)
                    if res is None or res[0] != scope or res[1].lower() != w.lower() or res[2] != 0:
                        v.append(f'CL-{cls}-after-another-operation-not-classified-in-full')
                        detail.append((f'{mn} {w}', res, cls + '-compound'))
    for d in COMPILER_DIRECTIVES:
        expect('.' + d, DIR_SCOPE, 'directive')
    for d in BYTECODE_DIRECTIVES:
        expect('.' + d, TYPE_SCOPE, 'directive')
    for d in PREPROCESSOR_DIRECTIVES:
        res = classify(rules, '#' + d)
        if res is None or res[0] != PRE_SCOPE or res[1] != d:
            v.append('CL-preprocessor-directive-not-classified-in-full')
            detail.append(('#' + d, res, 'preprocessor'))
    for w in vocab.get('outsiders', []):
        if w.lower() in allwords:
            continue
        res = classify(rules, w)
        op = classify_operand(rules, carriers[0], w) if carriers else None
        for got in (res, op):
            if got is not None and got[0] in VOCAB_SCOPES:
                v.append(f'CL-outsider-classified-as-{got[0].split(".")[-1]}')
                detail.append((w, got, 'outsider'))
    for cls, words in (('instruction', vocab['instructions']), ('macro', vocab['macros']),
                       ('register', vocab['registers']),
                       ('directive', ['.' + d for d in COMPILER_DIRECTIVES + BYTECODE_DIRECTIVES])):
        for w in words:
            base = w.lstrip('.')
            for nm in near_misses(base, allwords):
                probe = ('.' + nm) if w.startswith('.') else nm
                res = classify(rules, probe)
                if res is not None and res[0] in VOCAB_SCOPES:
                    v.append(f'CL-nearmiss-classified-as-{res[0].split(".")[-1]}')
                    detail.append((probe, res, 'nearmiss'))
    return sorted(set(v)), detail


PLACEHOLDER = re.compile(r'##[A-Z_]+##')


def check_outputs(files, case, isa):
    """files: {abs path: latin-1 text}; returns (violations, detail)"""
    v = []
    detail = {}
    target = case['target']
    vocab = vocab_of(isa)
    name = isa['general'].get('identifier', {}).get('name', 'isa').strip().replace(' ', '_')
    outs = {p: c for p, c in files.items() if p.startswith(OUT + '/') or p.startswith('/sim/home/')}
    if not outs:
        return ['GEN-no-output-files'], {}

    def text_of(p):
        return outs[p].encode('latin-1').decode('utf-8', 'replace')
    for p in outs:
        if p.endswith(('.json', '.tmTheme')):
            try:
                outs[p].encode('latin-1').decode('utf-8')
            except UnicodeDecodeError:
                v.append(f'WF-{os.path.basename(p).split(".")[-1]}-not-utf8')
    if target == 'vscode':
        base = [p for p in outs if p.endswith('/package.json')]
        if not base:
            return ['WF-package.json-missing'], {'files': sorted(outs)}
        root = os.path.dirname(base[0])
        expected = ['package.json', 'syntaxes/tmGrammar.json', 'snippets.json', 'language-configuration.json']
        for rel in expected:
            p = f'{root}/{rel}'
            if p not in outs:
                v.append(f'WF-{rel}-missing')
                continue
            try:
                json.loads(text_of(p))
            except Exception as e:
                v.append(f'WF-{rel}-invalid-json')
                detail[rel] = str(e)[:100]
        themes = [p for p in outs if p.endswith('.tmTheme')]
        if not themes:
            v.append('WF-tmTheme-missing')
        for p in themes:
            try:
                plistlib.loads(outs[p].encode('latin-1'))
            except Exception as e:
                v.append('WF-tmTheme-invalid-plist')
                detail['tmTheme'] = str(e)[:100]
        for p in outs:
            if PLACEHOLDER.search(text_of(p)):
                v.append(f'PH-placeholder-left-in-{os.path.basename(p).split(".")[-1]}')
                detail.setdefault('placeholder', []).append((os.path.basename(p), PLACEHOLDER.findall(text_of(p))[:3]))
        gp = f'{root}/syntaxes/tmGrammar.json'
        if not any(x.startswith('WF-') for x in v):
            # the package's own cross references: the editor attaches the grammar through them, so rules that are
            # registered under a scope / language / path that does not exist classify nothing
            pkg = json.loads(text_of(f'{root}/package.json'))
            contrib = pkg.get('contributes', {})
            lang_ids = [x.get('id') for x in contrib.get('languages', [])]
            gscope = json.loads(text_of(gp)).get('scopeName')
            for g in contrib.get('grammars', []) or [{}]:
                if g.get('scopeName') != gscope or not gscope:
                    v.append('WF-package-grammar-scope-name-mismatch')
                    detail['scope'] = [g.get('scopeName'), gscope]
                if g.get('language') not in lang_ids:
                    v.append('WF-package-grammar-language-unknown')
                if os.path.normpath(f'{root}/{g.get("path", "?")}') not in outs:
                    v.append('WF-package-grammar-path-missing')
            for key in ('snippets', 'themes'):
                for x in contrib.get(key, []):
                    if os.path.normpath(f'{root}/{x.get("path", "?")}') not in outs:
                        v.append(f'WF-package-{key}-path-missing')
                    if key == 'snippets' and x.get('language') not in lang_ids:
                        v.append('WF-package-snippets-language-unknown')
            for x in contrib.get('languages', []):
                if os.path.normpath(f'{root}/{x.get("configuration", "?")}') not in outs:
                    v.append('WF-package-language-configuration-path-missing')
        if gp in outs and not any(x.startswith('WF-syntaxes') for x in v):
            try:
                rules = vscode_rules(json.loads(text_of(gp)))
            except re.error as e:
                v.append('WF-grammar-pattern-does-not-compile')
                detail['re'] = str(e)[:100]
            else:
                cv, cd = check_grammar(rules, vocab, target)
                v += cv
                if cd:
                    detail['classification'] = cd[:6]
                    detail['classification_all'] = cd
    else:
        pk = [p for p in outs if p.endswith('.sublime-package')]
        if not pk:
            return ['WF-sublime-package-missing'], {'files': sorted(outs)}
        try:
            zf = zipfile.ZipFile(io.BytesIO(outs[pk[0]].encode('latin-1')))
            bad = zf.testzip()
            if bad:
                v.append('WF-zip-corrupt-member')
            names = zf.namelist()
        except Exception as e:
            return ['WF-sublime-package-invalid-zip'], {'zip': str(e)[:100]}
        if len(names) != len(set(names)):
            v.append('WF-zip-duplicate-member')
        stems = ['.sublime-syntax', '.sublime-color-scheme', 'Default.sublime-keymap', '__cstr.sublime-snippet',
                 '__fill.sublime-snippet', '__include.sublime-snippet', '__require.sublime-snippet',
                 'Comments.tmPreferences']
        for s in stems:
            if not any(n.endswith(s) for n in names):
                v.append(f'WF-zip-member-missing-{s.strip("_.")}')
        # every member that names the syntax's scope names the same one
        scopes = {}
        for n in names:
            txt = zf.read(n).decode('utf-8', 'replace')
            if n.endswith('.sublime-syntax'):
                scopes[n] = set(re.findall(r'(?m)^scope:\s*(\S+)', txt))
            elif n.endswith(('.tmPreferences', '.sublime-keymap', '.sublime-snippet')):
                scopes[n] = set(re.findall(r'\bsource\.[^\s<"\',]+', txt))
        syn_scopes = set().union(*[sc for n, sc in scopes.items() if n.endswith('.sublime-syntax')] or [set()])
        if len(syn_scopes) != 1:
            v.append('WF-sublime-syntax-scope-missing')
        elif any(sc and sc != syn_scopes for n, sc in scopes.items()):
            v.append('WF-sublime-scope-name-mismatch')
            detail['scopes'] = {n: sorted(sc) for n, sc in scopes.items()}
        leftovers = [p for p in files if p.startswith('/sim/tmp/')]
        if leftovers:
            v.append('WF-temporary-files-left-behind')
        for n in names:
            data = zf.read(n)
            txt = data.decode('utf-8', 'replace')
            if PLACEHOLDER.search(txt):
                v.append(f'PH-placeholder-left-in-{n.split(".")[-1]}')
                detail.setdefault('placeholder', []).append((n, PLACEHOLDER.findall(txt)[:3]))
            try:
                if n.endswith('.sublime-syntax'):
                    import yaml
                    syn = yaml.safe_load(txt)
                    try:
                        rules = sublime_rules(syn)
                    except re.error as e:
                        v.append('WF-grammar-pattern-does-not-compile')
                        detail['re'] = str(e)[:100]
                    else:
                        cv, cd = check_grammar(rules, vocab, target)
                        v += cv
                        if cd:
                            detail['classification'] = cd[:6]
                            detail['classification_all'] = cd
                elif n.endswith('.sublime-color-scheme') or n.endswith('.sublime-keymap'):
                    json.loads(txt)
                elif n.endswith('.tmPreferences'):
                    plistlib.loads(data)
                elif n.endswith('.sublime-snippet'):
                    xml.dom.minidom.parseString(data)
            except Exception as e:
                v.append(f'WF-{n.split(".")[-1]}-invalid')
                detail[n] = f'{type(e).__name__}: {e}'[:120]
    return sorted(set(v)), detail


def xproc_generate(case, hashseed):
    """real interpreter, real FS"""
    base = f'/dev/shm/verif_c20_{os.getpid()}_{abs(H(json.dumps(case["isa"], sort_keys=True))) % 100000}'
    if not os.path.isdir('/dev/shm'):
        base = os.path.join(os.environ.get('TMPDIR', '/tmp'), os.path.basename(base))
    isa = effective_isa(case)
    try:
        os.makedirs(base + '/out', exist_ok=True)
        os.makedirs(base + '/home', exist_ok=True)
        os.makedirs(base + '/tmp', exist_ok=True)
        with open(base + '/isa.json', 'w') as f:
            f.write(gen.isa_text(isa, 'json'))
        py = '/venv/bin/python' if os.path.exists('/venv/bin/python') else 'python3'
        env = {'PYTHONHASHSEED': str(hashseed), 'PYTHONPATH': child.REPO_SRC, 'PYTHONDONTWRITEBYTECODE': '1',
               'HOME': base + '/home', 'PATH': '/usr/bin:/bin', 'LANG': 'C.UTF-8', 'TMPDIR': base + '/tmp'}
        if case.get('sched', {}).get('pyopt'):
            env['PYTHONOPTIMIZE'] = str(case['sched']['pyopt'])      # `python -O` / `-OO`: asserts and docstrings gone
        cp = subprocess.run([py, '-m', 'bespokeasm', 'generate-extension', case['target'], '-c', 'isa.json', '-d',
                             base + '/out'] + list(case.get('opts', [])), cwd=base, env=env, capture_output=True,
                            timeout=120)
        files = {}
        for dp, dn, fn in os.walk(base + '/out'):
            for n in fn:
                with open(os.path.join(dp, n), 'rb') as fh:
                    files[OUT + os.path.join(dp, n)[len(base + '/out'):]] = fh.read().decode('latin-1')
        for dp, dn, fn in os.walk(base + '/tmp'):
            for n in fn:
                files['/sim/tmp/' + n] = ''
        return cp.returncode, cp.stderr.decode('latin-1')[-300:], files
    finally:
        shutil.rmtree(base, ignore_errors=True)


def check_case(case):
    isa = effective_isa(case)
    sched = case.get('sched', {})
    if not isa['instructions']:
        # a definition without any instruction is degenerate (its instruction pattern is empty); not explored
        return {'violations': [], 'observed': {'skipped': 'no instructions'}, 'result': {'steps': 0, 'kind': 'exit',
                'exit': 0, 'files': {}, 'gaps': []}}
    if 'hashseed' in sched:
        rc, err, files = xproc_generate(case, sched['hashseed'])
        obs = {'exit': rc, 'stderr': err, 'hashseed': sched['hashseed']}
        if rc != 0:
            return {'violations': ['GEN-generation-failed'], 'observed': obs, 'result': None}
        v, detail = check_outputs(files, case, isa)
        obs['detail'] = detail
        return {'violations': v, 'observed': obs, 'result': None, 'files': files}
    if case.get('prior'):
        return check_two_runs(case)
    w = build_world(case)
    r = child.run_world(w)
    obs = {'kind': r['kind'], 'exit': r['exit'], 'exc': (r.get('exc') or '')[:200], 'gaps': r.get('gaps', []),
           'where': r.get('where')}
    if r['kind'] in ('crash', 'wall_timeout'):
        return {'violations': [], 'observed': obs, 'result': r}
    if r['kind'] == 'step_budget':
        return {'violations': ['GEN-nontermination'], 'observed': obs, 'result': r}
    if (r['kind'] == 'exception' or r['exit'] != 0) and case.get('faults') and r.get('fired'):
        obs['under_fault'] = [f['kind'] for f in r['fired']]
        return {'violations': [], 'observed': obs, 'result': r}
    if r['kind'] == 'exception' or r['exit'] != 0:
        if sched.get('epoch', 1.7e9) < 315532800.0:
            obs['observed_only'] = 'pre-1980 epoch'
            return {'violations': [], 'observed': obs, 'result': r}
        return {'violations': ['GEN-generation-failed'], 'observed': obs, 'result': r}
    v, detail = check_outputs(r['files'], case, isa)
    obs['detail'] = detail
    if case.get('faults') and r.get('fired'):
        v = v + ['IO-' + x for x in v]      # reported under this name when found by the fault tier
    return {'violations': v, 'observed': obs, 'result': r}


def generated_outputs(files, target):
    """the generated package as comparable content: {name: text}; zip members are unpacked (timestamps ignored)"""
    out = {}
    for p, c in files.items():
        if not (p.startswith(OUT + '/') or p.startswith('/sim/home/')):
            continue
        if p.endswith('.sublime-package'):
            try:
                zf = zipfile.ZipFile(io.BytesIO(c.encode('latin-1')))
                # member order follows the (arbitrary) listing order of a fresh temporary directory: not compared
                out[p] = sorted((i.filename, zf.read(i.filename).decode('latin-1')) for i in zf.infolist())
            except Exception as e:
                out[p] = f'invalid zip: {e}'
        else:
            out[p] = c
    return out


def check_two_runs(case):
    """History of two generator runs sharing one file system: an earlier run (possibly failing, possibly for another or
    a bigger ISA) leaves files behind; the second run must produce exactly what it produces on a pristine file system."""
    prior = dict(case['prior'])
    c1 = {k: v for k, v in case.items() if k not in ('prior', '_state')}
    c1.update(prior)
    c1.pop('prior', None)
    r1 = child.run_world(build_world(c1))
    obs = {'prior': {'kind': r1['kind'], 'exit': r1['exit'], 'exc': (r1.get('exc') or '')[:120],
                     'fired': [f['kind'] for f in r1.get('fired', [])]}}
    if r1['kind'] in ('crash', 'wall_timeout') or r1.get('gaps'):
        return {'violations': [], 'observed': obs, 'result': r1}
    state = {'files': {p: c for p, c in r1['files'].items() if not p.startswith(PDIR + '/')},
             'dirs': [d for d in r1.get('dirs', []) if d.startswith('/sim/') and d != PDIR],
             'mtimes': {p: t for p, t in r1.get('mtimes', {}).items() if not p.startswith(PDIR + '/')}}
    c2 = {k: v for k, v in case.items() if k != 'prior'}
    c2['_state'] = state
    if case.get('isa_older_than_leftovers') and state['mtimes']:
        # e.g. a definition copied with its old timestamp (cp -p, tar, rsync -t) after the earlier generation
        c2['isa_mtime'] = min(state['mtimes'].values()) - 86400.0
    r2 = child.run_world(build_world(c2))
    c0 = {k: v for k, v in case.items() if k not in ('prior', '_state')}
    r0 = child.run_world(build_world(c0))
    obs.update({'kind': r2['kind'], 'exit': r2['exit'], 'exc': (r2.get('exc') or '')[:160],
                'pristine': {'kind': r0['kind'], 'exit': r0['exit']}, 'gaps': r2.get('gaps', []) + r0.get('gaps', [])})
    v = []
    if r2['kind'] in ('crash', 'wall_timeout') or r0['kind'] in ('crash', 'wall_timeout'):
        return {'violations': v, 'observed': obs, 'result': r2}
    ok0 = r0['kind'] == 'exit' and r0['exit'] == 0
    ok2 = r2['kind'] == 'exit' and r2['exit'] == 0
    if not ok0:
        return {'violations': v, 'observed': obs, 'result': r2, 'discard': 'pristine run fails'}
    if not ok2:
        v.append('ST-run-fails-because-of-leftovers-of-earlier-run')
        return {'violations': v, 'observed': obs, 'result': r2}
    isa = effective_isa(case)
    mine_paths = {p for p in r0['files'] if p.startswith(OUT + '/') or p.startswith('/sim/home/')}
    wf, detail = check_outputs({p: c for p, c in r2['files'].items() if p in mine_paths}, case, isa)
    wf = [x for x in wf if x != 'WF-temporary-files-left-behind']
    v += wf
    if detail:
        obs['detail'] = {k: detail[k] for k in list(detail)[:3]}
    mine0 = generated_outputs(r0['files'], case['target'])
    mine2 = {p: c for p, c in generated_outputs(r2['files'], case['target']).items() if p in mine0}
    if mine0 != mine2:
        v.append('ST-output-depends-on-leftovers-of-earlier-run')
        diff = [p for p in mine0 if mine0[p] != mine2.get(p)]
        obs['differing_files'] = [os.path.basename(p) for p in diff][:4]
    return {'violations': sorted(set(v)), 'observed': obs, 'result': r2}


def shrink_paths(case):
    if case.get('faults'):
        return [('macro_keep',), ('opts',)]      # fault positions are event indices of this exact world
    return [('instr_keep',), ('macro_keep',), ('opts',)]


def cross_class_dotted_prefix(word, scope_got, text_got, vocab):
    """True iff `word` (a configured name containing '.') was claimed by a rule of ANOTHER class through a
    configured name of that class that is a '.'-delimited prefix of it (e.g. macro jmp.far vs instruction jmp)."""
    cls_of_scope = {INSTR_SCOPE: 'instructions', MACRO_SCOPE: 'macros', REG_SCOPE: 'registers'}
    other = cls_of_scope.get(scope_got)
    if other is None or '.' not in word:
        return False
    w = word.lower()
    t = (text_got or '').lower()
    if not t or not w.startswith(t + '.'):
        return False
    own = [k for k, ws in vocab.items() if w in [x.lower() for x in ws]]
    # only the direction that fails on the unchanged tree: a MACRO name claimed by the INSTRUCTIONS rule (which comes
    # first in both grammars). The mirror image (macro `st`, instruction `st.w`) is classified correctly there, and a
    # change that breaks it must be reported (seeded change C20-u3)
    return other == 'instructions' and own == ['macros'] and t in [x.lower() for x in vocab[other]]


def attributable(case, vclass, finding):
    """A violation is attributed to the open finding C20-cross-class-dotted-prefix only if EVERY failing probe of
    that class is explained by exactly its trigger."""
    if finding['id'] != 'C20-cross-class-dotted-prefix':
        return False
    io = vclass.startswith('IO-')       # the same classes when found under a (survived) injected fault
    if io:
        vclass = vclass[3:]
    if vclass not in ('CL-macro-not-classified-in-full', 'CL-macro-after-another-operation-not-classified-in-full'):
        return False
    isa = effective_isa(case)
    vocab = vocab_of(isa)
    res = check_case(case)
    if vclass not in res['violations']:
        return False
    det = res['observed'].get('detail', {}).get('classification_all', [])
    cls = vclass.split('-')[1]
    compound = 'after-another-operation' in vclass
    mine = [d for d in det if d[2] == (cls + '-compound' if compound else cls)]
    if not mine:
        return False
    for word, got, _ in mine:
        if compound:
            word = word.split(' ', 1)[1]
        if got is None or not cross_class_dotted_prefix(word, got[0], got[1], vocab):
            return False
    return True


def simplify(case):
    s = case.get('sched', {})
    for k in list(s):
        if k == 'hashseed':
            continue
        c = copy.deepcopy(case)
        del c['sched'][k]
        yield c


def gen_sched(rnd):
    return {'set_seed': rnd.randrange(1, 1 << 30), 'list_seed': rnd.randrange(1, 1 << 30),
            'tmp_names': [rnd.choice(['a1b2', 'zz_9', 'Q', '0000', 'b[1]', 'x*y', 'q?'])],
            'epoch': rnd.choice([1.7e9, 3.2e8, 9.5e8, 2.0e9, 4.0e9]),
            'resource_mtime': rnd.choice([None, 0.0, 86400.0, 3.0e8, 1.7e9, 4.2e9]),
            'encoding': rnd.choice(['utf-8', 'utf-8', 'ascii', 'latin-1', 'cp1252'])}


def alternation_orders(files):
    """digest of the alternation order of every (?:a|b|c) group in the generated grammar (schedule coverage)"""
    orders = []
    for p, c in sorted(files.items()):
        if p.endswith('tmGrammar.json'):
            orders.append(H(c) & 0xFFFFFFFF)
        elif p.endswith('.sublime-package'):
            try:
                zf = zipfile.ZipFile(io.BytesIO(c.encode('latin-1')))
                # member order and contents, not timestamps (real ones in the cross-process tier)
                orders.append(H([(i.filename, i.CRC) for i in zf.infolist()]) & 0xFFFFFFFF)
            except Exception:
                orders.append(0)
    return tuple(orders)


def explore(subseed, cfg):
    rnd = random.Random(subseed)
    out = {'evaluations': 0, 'runs': 0, 'steps': 0, 'probes': {}, 'faults_fired': {}, 'discarded': {},
           'violations': [], 'samples': [], 'distinct': set(), 'harness': [], 'sim_clock_s': 0.0}
    pr = out['probes']
    isa = gen_vocab_isa(rnd)
    vocab = vocab_of(isa)
    base = {'isa': isa, 'instr_keep': list(isa['instructions']), 'macro_keep': list(isa.get('macros') or {}),
            'fmt': rnd.choice(['json', 'yaml']), 'opts': []}
    # command-line options of the generator are part of the configuration space
    base['opts'] += ['-v'] * rnd.choice([0, 0, 1, 2, 3, 4])
    if rnd.random() < 0.15:
        base['default_dir'] = True      # no -d: the editor's configuration directory under $HOME
    if rnd.random() < 0.2:
        base['opts'] += ['-x', rnd.choice(['asm', 's', 'a51'])]
    if rnd.random() < 0.15:
        base['opts'] += ['-k', rnd.choice(['9.9.9', '0.0.1-rc1'])]
    if rnd.random() < 0.15:
        base['opts'] += ['-l', rnd.choice(['.hidden', 'plain', 'x"y', 'back\\slash', 'sp ace'])]
    vd = H(json.dumps(isa, sort_keys=True)) & 0xFFFFFFFF
    if any('.' in m for m in vocab['instructions'] + vocab['macros']):
        pr['mnemonic_with_dot'] = 1
    if any(a != b and b.startswith(a) for a in vocab['registers'] for b in vocab['registers']):
        pr['register_prefix_of_another'] = 1
    if any(a != b and b.startswith(a) for a in vocab['instructions'] for b in vocab['instructions']):
        pr['mnemonic_prefix_of_another'] = 1
    for k, name in (('macros', 'isa_without_macros'), ('registers', 'isa_without_registers')):
        if not vocab[k]:
            pr[name] = 1
    if 'predefined' not in isa:
        pr['isa_without_predefined'] = 1
    first = True
    for target in ('vscode', 'sublime'):
        scheds = [{}] + [gen_sched(rnd) for _ in range(cfg.get('schedules', 3))]
        for s in scheds:
            c = dict(copy.deepcopy(base), target=target, sched=s)
            res = check_case(c)
            r = res['result']
            out['runs'] += 1
            out['evaluations'] += 1
            out['steps'] += r['steps']
            if r.get('gaps'):
                out['harness'].append(f'HARNESS-GAP {r["gaps"][:2]}')
                continue
            if r['kind'] in ('crash', 'wall_timeout'):
                out['harness'].append(f'{r["kind"]}: {r.get("exc")}')
                continue
            if first and (r['kind'] != 'exit' or r['exit'] != 0) and not s:
                out['discarded'][f'ISA rejected: {(r.get("exc") or r.get("stderr") or "")[:60]}'] = 1
                return _fin(out)
            first = False
            for vv in res['violations']:
                out['violations'].append({'case': c, 'class': vv, 'group': target})
            if s and (max(len(x) for x in vocab.values()) >= 2):
                out['distinct'].add(H((vd, target, alternation_orders(r['files']))) & 0xFFFFFFFFFFFF)
            # probe: was `if` emitted before `ifdef` in this run?
            for p, ctext in r['files'].items():
                if p.endswith('tmGrammar.json'):
                    m = re.search(r'\(\?<=\\\\#\)\(\?:([^)]*)\)', ctext)
                    if m:
                        alts = m.group(1).split('|')
                        if 'if' in alts and 'ifdef' in alts and alts.index('if') < alts.index('ifdef'):
                            pr['if_ordered_before_ifdef'] = pr.get('if_ordered_before_ifdef', 0) + 1
        # single I/O faults on every file the generator writes: a fault may make the run fail, but a run that reports
        # success must have produced a complete, well-formed package
        c0 = dict(copy.deepcopy(base), target=target, sched={})
        r0 = child.run_world(build_world(c0))
        out['runs'] += 1
        if r0['kind'] == 'exit' and r0['exit'] == 0 and not r0.get('gaps'):
            plans = []
            for idx, op, path, detail in r0['events']:
                if op == 'open' and (any(ch in (detail or '') for ch in 'wax+') or str(detail).startswith('os.open')):
                    size = len(r0['files'].get(path, '')) or 200
                    plans.append([{'at': idx, 'kind': 'open_enospc'}])
                    plans.append([{'at': idx, 'kind': 'close_eio'}])
                    for kk in sorted({0, size // 2, max(size - 30, 0), max(size - 1, 0)}):
                        plans.append([{'at': idx, 'kind': 'write_enospc_after', 'k': kk}])
                        plans.append([{'at': idx, 'kind': 'write_short_after', 'k': kk}])
            for faults in rnd.sample(plans, min(len(plans), cfg.get('fault_cases', 14))):
                c = dict(copy.deepcopy(c0), faults=faults)
                res = check_case(c)
                r = res['result']
                out['runs'] += 1
                out['evaluations'] += 1
                for f in r.get('fired', []):
                    out['faults_fired'][f['kind']] = out['faults_fired'].get(f['kind'], 0) + 1
                if r.get('gaps'):
                    out['harness'].append(f'HARNESS-GAP {r["gaps"][:2]}')
                    continue
                if r['kind'] == 'exit' and r['exit'] == 0 and r.get('fired'):
                    pr['success_despite_fired_fault'] = pr.get('success_despite_fired_fault', 0) + 1
                    for vv in res['violations']:
                        if vv.startswith('IO-'):
                            out['violations'].append({'case': c, 'class': vv, 'group': target + ':fault'})
                elif r['kind'] != 'exit' or r['exit'] != 0:
                    pr['run_failed_under_fault'] = pr.get('run_failed_under_fault', 0) + 1
                out['distinct'].add(H((vd, target, 'fault', str(faults))) & 0xFFFFFFFFFFFF)
        # histories of two runs sharing the file system
        for _ in range(cfg.get('two_run', 2)):
            mode = rnd.choice(['prior-bigger-same-name', 'prior-fails-no-out-dir', 'prior-io-fault', 'prior-other-isa'])
            c = dict(copy.deepcopy(base), target=target, sched=gen_sched(rnd))
            if mode == 'prior-bigger-same-name':
                big = copy.deepcopy(isa)
                for j in range(4):
                    big['instructions'][f'zz{j}x'] = {'bytecode': {'value': 200 + j, 'size': 8}}
                big['description'] = (big.get('description') or '') + ' (earlier, longer revision of this ISA) ' * 3
                c['prior'] = {'isa': big, 'instr_keep': list(big['instructions'])}
            elif mode == 'prior-fails-no-out-dir':
                other = gen_vocab_isa(rnd)
                c['prior'] = {'isa': other, 'instr_keep': list(other['instructions']),
                              'macro_keep': list(other.get('macros') or {}), 'no_out_dir': True}
            elif mode == 'prior-io-fault':
                other = gen_vocab_isa(rnd)
                c['prior'] = {'isa': other, 'instr_keep': list(other['instructions']),
                              'macro_keep': list(other.get('macros') or {}),
                              'faults': [{'at': rnd.randrange(2, 40), 'kind': rnd.choice(
                                  ['open_enospc', 'write_enospc_after', 'open_eacces', 'close_eio']), 'k': 10}]}
            else:
                other = gen_vocab_isa(rnd)
                c['prior'] = {'isa': other, 'instr_keep': list(other['instructions']),
                              'macro_keep': list(other.get('macros') or {})}
            if rnd.random() < 0.5:
                c['isa_older_than_leftovers'] = True
                pr['two_run_isa_older_than_leftovers'] = pr.get('two_run_isa_older_than_leftovers', 0) + 1
            res = check_case(c)
            out['runs'] += 3
            out['evaluations'] += 1
            pr['two_run_' + mode] = pr.get('two_run_' + mode, 0) + 1
            if res['observed'].get('prior', {}).get('exit') not in (0,):
                pr['two_run_prior_failed'] = pr.get('two_run_prior_failed', 0) + 1
            for f in res['observed'].get('prior', {}).get('fired', []):
                out['faults_fired'][f] = out['faults_fired'].get(f, 0) + 1
            if res['observed'].get('gaps'):
                out['harness'].append(f'HARNESS-GAP {res["observed"]["gaps"][:2]}')
                continue
            for vv in res['violations']:
                out['violations'].append({'case': c, 'class': vv, 'group': target + ':two-run'})
            out['distinct'].add(H((vd, target, 'two-run', mode, str(c['prior'].get('faults')))) & 0xFFFFFFFFFFFF)
        if (subseed & 0xFFFFFFFF) % cfg.get('xproc_every', 6) == 0:
            for hs in [0] + rnd.sample(range(1, 3000), cfg.get('hashseeds', 3) - 1):
                c = dict(copy.deepcopy(base), target=target, sched={'hashseed': hs, 'pyopt': rnd.choice([0, 0, 1, 2])})
                try:
                    res = check_case(c)
                except Exception as e:
                    out['harness'].append(f'xproc {type(e).__name__}: {e}')
                    continue
                out['runs'] += 1
                out['evaluations'] += 1
                pr['xproc_runs'] = pr.get('xproc_runs', 0) + 1
                for vv in res['violations']:
                    out['violations'].append({'case': c, 'class': vv, 'group': target + ':xproc'})
                out['distinct'].add(H((vd, target, 'hs', alternation_orders(res.get('files', {})))) & 0xFFFFFFFFFFFF)
    if not out['samples']:
        out['samples'].append({'subseed': subseed, 'vocabulary': vocab, 'example_schedule': gen_sched(random.Random(2)),
                               'argv': build_world(dict(base, target='vscode'))['argv']})
    return _fin(out)


def _fin(out):
    out['distinct'] = sorted(out['distinct'])
    return out
