"""C08 - Conditional assembly selects exactly the lines of the taken branches.  (history-driven, fault-free)

A Hypothesis RuleBasedStateMachine (one process per sub-seed, hypothesis.seed(sub-seed)) generates *histories*:
sequences of conditional directives, symbol definitions from three sources, marker lines, constant / label / zone
definitions with later uses, mute changes and ill-formed directives.  A 60-line reference model (frames
{enclosing active, branch taken, selected}, conditions evaluated once when reached) is stepped in lockstep and after
EVERY operation the prefix of the history (closed with the pending #endif / #unmute lines and a sentinel) is assembled
by the real CLI in the simulator; exit status and the image (as a sparse address->byte map) must equal the model's.
"""
import copy
import json
import random

from sim.runner import H
from sim import child, gen

ID = 'C08'
LEVEL = 'exploration'
TIERS = {
    'quick': {'subseeds': 24, 'examples': 14, 'steps': 22, 'wall_budget': 240, 'min_runs': 200, 'task_timeout': 900},
    'thorough': {'subseeds': 480, 'examples': 36, 'steps': 26, 'wall_budget': 2400, 'min_runs': 300,
                 'task_timeout': 3000},
}
RULE = ('one case = one history (sequence of <= N operations drawn by a Hypothesis rule-based state machine under '
        'hypothesis.seed(sub-seed)); every prefix of every history is one evaluation (one simulated CLI run compared '
        'with the reference model); non-trivial = the history opens at least one conditional chain; distinct = distinct '
        'model state paths (sequence of frame-stack shapes x selection vectors x mute depth)')
ASSUMPTIONS = [
    'fault-free, history-driven use of the technique: there is no schedule or fault dimension in this property; the hidden variable is the order in which definitions and directives are encountered',
    'excluded because the statement / requirement document do not fix their meaning: undefined symbols inside #if expressions, string comparisons, chains left open at end of file, conditionals around #include (covered by C17)',
    'ill-formed or failing steps are side probes (prefix + offending line must be rejected) and are not kept in the history',
    'images are compared as sparse address->byte maps with default fill 0 (trailing fill produced by non-byte lines is C03 business)',
]
COMPONENTS = {'real': ['bespokeasm (whole package) through the CLI entry point', 'click', 'yaml'],
              'stub': ['file system (SimFS)', 'stdout', 'process boundary (fork)'],
              'model': ['props/c08.py:CondModel (reference model of conditional selection)']}

PDIR = '/sim/p'
SYMS = ['SA', 'SB', 'fast', 'idx', 'S_E', 'legacy', 'SA_2', 'fast2']     # lower-case names too: nothing in the statement depends on case
CONSTS = ['KA', 'KB', 'KC']
LABELS = ['la', 'lb', 'lc']
ZONES = ['Z1', 'Z2', 'Z3']
CMP = ['==', '!=', '<', '<=', '>', '>=']


class CondModel:
    """Reference model. apply(op) -> ('keep', lines) | ('probe', lines) | None (operation not applicable)."""

    def __init__(self, pre_symbols, cli_symbols):
        self.symbols = {}
        self.symbols.update(pre_symbols)
        self.symbols.update(cli_symbols)
        self.src = {n: 'isa' for n in pre_symbols}
        self.src.update({n: 'cli' for n in cli_symbols})
        self.frames = []            # [enclosing_active, taken, selected, kind, has_else]
        self.mute = 0
        self.mem = {}
        self.cursor = {'GLOBAL': 0}
        self.zone = 'GLOBAL'
        self.consts = {}
        self.labels = {}
        self.zones = {}
        self.path = []
        self.probes = {}

    def active(self):
        return all(f[2] for f in self.frames)

    LIT = r"\$[0-9a-fA-F]+|0x[0-9a-fA-F]+|\b[0-9a-fA-F]+H\b|%[01]+|\bb[01]+\b|\b\d+\b"

    @staticmethod
    def lit_value(t):
        if t.startswith('$'):
            return int(t[1:], 16)
        if t.startswith('0x'):
            return int(t[2:], 16)
        if t.endswith('H'):
            return int(t[:-1], 16)
        if t.startswith('%') or t.startswith('b'):
            return int(t[1:], 2)
        return int(t)

    def expand(self, text, stack=()):
        """lazy, textual, whole-word expansion of symbols at the moment of evaluation; numeric literals in every
        supported notation are converted to decimal on the way"""
        import re

        def repl(m):
            if m.group(1) is not None:
                return str(self.lit_value(m.group(1)))
            w = m.group(2)
            if w in self.symbols:
                if w in stack or len(stack) > 8 or self.symbols[w] in (None, ''):
                    raise KeyError(w)
                return self.expand(self.symbols[w], stack + (w,))
            raise KeyError(w)
        return re.sub(f'({self.LIT})|([A-Za-z_]\\w*)', repl, str(text))

    ZERO_DIV = object()

    def num(self, text):
        import re
        t = self.expand(text)
        m = re.fullmatch(r'(\d+) / (\d+)', t.strip())
        if m:
            # an exact quotient only (what an inexact one compares like is not something the statement fixes)
            a, b = int(m.group(1)), int(m.group(2))
            if b == 0:
                return self.ZERO_DIV
            if a % b:
                raise KeyError(t)
            return a // b
        # sums/differences, optionally followed by ONE shift or mask operator (same precedence in Python and here)
        if not re.fullmatch(r'\d+( ?[+-] ?\d+)*( ?(>>|<<|&|\|) ?\d+)?', t.strip()):
            raise KeyError(t)
        return int(eval(t, {'__builtins__': {}}, {}))     # noqa: S307 - digits and + - >> << & | only

    def sides(self, cond):
        t = [str(x) for x in cond['terms']]
        if cond['form'] == 'bare_bits':
            return f'{t[0]} {cond["bop"]} {t[1]}', '!=', '0'
        if cond['form'] == 'cmp_bits':
            return f'{t[0]} {cond["bop"]} {t[1]}', cond['op'], t[2]
        if cond['form'] == 'cmp':
            return t[0], cond['op'], t[1]
        if cond['form'] == 'div':
            return f'{t[0]} / {t[1]}', cond['op'], t[2]
        if cond['form'] == 'bare':
            return t[0], '!=', '0'
        if cond['form'] == 'bare_minus':
            return f'{t[0]} - {t[1]}', '!=', '0'
        return f'{t[0]} + {t[1]}', cond['op'], t[2]

    def cond_ok(self, cond, unevaluated=False):
        """every symbol used expands to a number right now; a division by zero is acceptable only in a condition
        that is not going to be evaluated (the guard idiom `#if R == 0 ... #elif 100 / R > 9`)"""
        try:
            a, _, b = self.sides(cond)
            va, vb = self.num(a), self.num(b)
            if (va is self.ZERO_DIV or vb is self.ZERO_DIV) and not unevaluated:
                return False
            return True
        except (KeyError, ValueError, SyntaxError):
            return False

    def eval_cond(self, cond):
        a, op, b = self.sides(cond)
        a, b = self.num(a), self.num(b)
        return {'==': a == b, '!=': a != b, '<': a < b, '<=': a <= b, '>': a > b, '>=': a >= b}[op]

    @staticmethod
    def cond_text(cond):
        t = [str(x) for x in cond['terms']]
        if cond['form'] == 'bare_bits':
            return f'{t[0]} {cond["bop"]} {t[1]}'
        if cond['form'] == 'cmp_bits':
            return f'{t[0]} {cond["bop"]} {t[1]} {cond["op"]} {t[2]}'
        if cond['form'] == 'cmp':
            q = cond.get('quote', '')
            if q and not t[1].isdigit():
                q = ''              # only a plain decimal number is written in quotes (still compared as a number)
            return f'{t[0]} {cond["op"]} {q}{t[1]}{q}'
        if cond['form'] == 'div':
            return f'{t[0]} / {t[1]} {cond["op"]} {t[2]}'
        if cond['form'] == 'bare':
            return t[0]
        if cond['form'] == 'bare_minus':
            return f'{t[0]} - {t[1]}'
        return f'{t[0]} + {t[1]} {cond["op"]} {t[2]}'

    def emit(self, byte):
        a = self.cursor[self.zone]
        if self.mute == 0:
            self.mem[a] = byte
        self.cursor[self.zone] = a + 1

    def snapshot(self):
        self.path.append((tuple((f[0], f[1], f[2]) for f in self.frames), self.mute))

    def apply(self, op):
        k = op['op']
        act = self.active()
        if self.cursor['GLOBAL'] > 0x3f0 and k in ('marker', 'sym_use', 'use_const', 'use_label', 'usezone'):
            return None          # keep GLOBAL's bytes clear of the zones (overlap is C04's business)
        if self.zone != 'GLOBAL' and self.cursor[self.zone] > self.zones[self.zone] + 14 and k in (
                'marker', 'sym_use', 'use_const', 'use_label'):
            return None          # a 16-byte zone is full: one more byte is C04's "address outside the zone" (soak 778)
        if k == 'if':
            if not self.cond_ok(op['cond']) or len(self.frames) >= 4:
                return None
            sel = self.eval_cond(op['cond']) if act else False
            if act:
                for t in op['cond']['terms']:
                    if isinstance(t, str) and t in self.src:
                        self.probes['condition_consulted_' + self.src[t]] = self.probes.get(
                            'condition_consulted_' + self.src[t], 0) + 1
            self.frames.append([act, sel, sel, 'if', False])
            if not act:
                self.probes['chain_nested_in_unselected'] = self.probes.get('chain_nested_in_unselected', 0) + 1
            return 'keep', ['#if ' + self.cond_text(op['cond'])]
        if k == 'ifdef':
            if len(self.frames) >= 4:
                return None
            defined = op['name'] in self.symbols
            sel = (defined != op['neg']) if act else False
            self.frames.append([act, sel, sel, 'ifdef', False])
            if not act:
                self.probes['chain_nested_in_unselected'] = self.probes.get('chain_nested_in_unselected', 0) + 1
            return 'keep', [('#ifndef ' if op['neg'] else '#ifdef ') + op['name']]
        if k == 'elif':
            if not self.frames or self.frames[-1][4] or not self.cond_ok(
                    op['cond'], unevaluated=self.frames[-1][1] or not self.frames[-1][0]):
                return None
            if self.frames[-1][3] == 'ifdef':
                self.probes['elif_in_ifdef_chain'] = self.probes.get('elif_in_ifdef_chain', 0) + 1
            f = self.frames[-1]
            if f[1]:
                self.probes['elif_after_taken_branch'] = self.probes.get('elif_after_taken_branch', 0) + 1
            f[2] = (not f[1]) and f[0] and self.eval_cond(op['cond'])
            f[1] = f[1] or f[2]
            return 'keep', ['#elif ' + self.cond_text(op['cond'])]
        if k == 'else':
            if not self.frames or self.frames[-1][4]:
                return None
            f = self.frames[-1]
            f[2] = (not f[1]) and f[0]
            f[1] = f[1] or f[2]
            f[4] = True
            return 'keep', ['#else']
        if k == 'endif':
            if not self.frames:
                return None
            self.frames.pop()
            return 'keep', ['#endif']
        if k == 'define':
            if op['name'] in self.symbols:
                return None
            if isinstance(op['value'], str):
                # cyclic definitions are C09's business (a line that uses one is rejected wherever it stands)
                import re
                seen, todo = set(), re.findall(r'[A-Za-z_]\w*', op['value'])
                while todo:
                    w = todo.pop()
                    if w == op['name']:
                        return None
                    if w in seen:
                        continue
                    seen.add(w)
                    if self.symbols.get(w):
                        todo += re.findall(r'[A-Za-z_]\w*', str(self.symbols[w]))
            line = f'#define {op["name"]}' + (f' {op["value"]}' if op['value'] is not None else '')
            if act:
                self.symbols[op['name']] = None if op['value'] is None else str(op['value'])
                self.src[op['name']] = 'define'
                if self.frames:
                    self.probes['define_inside_block'] = self.probes.get('define_inside_block', 0) + 1
            else:
                self.probes['define_in_unselected'] = self.probes.get('define_in_unselected', 0) + 1
            return 'keep', [line]
        if k == 'marker':
            if act:
                self.emit(op['k'])
            return 'keep', [f'  .byte {op["k"]}']
        if k == 'sym_use':
            # an ordinary line written with a symbol: substituted (lazily) when the line is reached
            line = f'  .byte {op["name"]}'
            if not act:
                self.probes['symbol_used_in_unselected_line'] = self.probes.get('symbol_used_in_unselected_line', 0) + 1
                return 'keep', [line]
            if op['name'] not in self.symbols:
                return None
            try:
                v = self.num(op['name'])
            except (KeyError, ValueError, SyntaxError):
                return None
            if not 0 <= v <= 255:
                return None
            self.emit(v)
            self.probes['symbol_used_in_selected_line'] = self.probes.get('symbol_used_in_selected_line', 0) + 1
            return 'keep', [line]
        if k == 'const':
            if op['name'] in self.consts:
                return None
            if act:
                self.consts[op['name']] = op['value']
            return 'keep', [f'{op["name"]} = {op["value"]}']
        if k == 'use_const':
            line = f'  .byte {op["name"]}'
            if not act:
                return 'keep', [line]
            if op['name'] in self.consts:
                self.emit(self.consts[op['name']])
                return 'keep', [line]
            self.probes['use_of_unselected_definition'] = self.probes.get('use_of_unselected_definition', 0) + 1
            return 'probe', [line]
        if k == 'label':
            if op['name'] in self.labels:
                return None
            if act:
                self.labels[op['name']] = self.cursor[self.zone]
            return 'keep', [f'{op["name"]}:']
        if k == 'use_label':
            line = f'  .byte LSB({op["name"]})'
            if not act:
                return 'keep', [line]
            if op['name'] in self.labels:
                self.emit(self.labels[op['name']] & 0xFF)
                return 'keep', [line]
            self.probes['use_of_unselected_definition'] = self.probes.get('use_of_unselected_definition', 0) + 1
            return 'probe', [line]
        if k == 'mkzone':
            if op['name'] in self.zones:
                return None
            start = 0x400 + 0x10 * op['idx']      # far above anything a history can place in GLOBAL
            if act:
                self.zones[op['name']] = start
                self.cursor[op['name']] = start
            return 'keep', [f'#create_memzone {op["name"]} ${start:x} ${start + 15:x}']
        if k == 'usezone':
            lines = [f'  .memzone {op["name"]}', f'  .byte {op["k"]}']
            if not act:
                return 'keep', lines
            if op['name'] == 'GLOBAL' or op['name'] in self.zones:
                if self.cursor[op['name']] > (0x3f0 if op['name'] == 'GLOBAL' else self.zones[op['name']] + 14):
                    return None
                self.zone = op['name']
                self.emit(op['k'])
                return 'keep', lines
            self.probes['use_of_unselected_definition'] = self.probes.get('use_of_unselected_definition', 0) + 1
            return 'probe', lines
        if k == 'mute':
            if act:
                self.mute += 1
            else:
                self.probes['mute_toggled_in_unselected'] = self.probes.get('mute_toggled_in_unselected', 0) + 1
            return 'keep', ['#mute']
        if k == 'unmute':
            if act:
                self.mute = max(0, self.mute - 1)
            else:
                self.probes['mute_toggled_in_unselected'] = self.probes.get('mute_toggled_in_unselected', 0) + 1
            return 'keep', [op.get('word', '#unmute')]
        if k == 'raw_ifdef':
            # `#ifdef <defined name><byte that is no UTF-8><tail>`: a file in a legacy code page. Refusing the file is
            # fine; accepting it and testing the defined prefix instead of the word that was written is not
            if not act or self.mute or self.zone != 'GLOBAL' or op['name'] not in self.symbols:
                return None
            self.soft = {'addr': self.cursor['GLOBAL'], 'forbidden': 0xD6}
            return 'soft', [f'#ifdef {op["name"]}' + chr(0xDC00 + op['byte']) + op['tail'], '  .byte $D6', '#else',
                            '  .byte $D7', '#endif']
        if k == 'illformed':
            kind = op['kind']
            if kind in ('stray_else', 'stray_elif', 'stray_endif'):
                if self.frames:
                    return None
                return 'probe', [{'stray_else': '#else', 'stray_elif': '#elif 1', 'stray_endif': '#endif'}[kind]]
            if kind == 'else_after_else':
                if not self.frames or not self.frames[-1][4]:
                    return None
                return 'probe', ['#else']
            if kind == 'elif_after_else':
                if not self.frames or not self.frames[-1][4]:
                    return None
                return 'probe', ['#elif 1']
        return None

    def closing(self):
        """lines that close the prefix, and the expected final memory map"""
        lines = ['#endif'] * len(self.frames)
        # after closing all chains everything is active again
        lines += ['#unmute'] * self.mute
        lines += ['  .memzone GLOBAL', '  .byte $EE']
        mem = dict(self.mem)
        mem[self.cursor['GLOBAL']] = 0xEE
        return lines, mem


def isa_for(pre_symbols):
    isa = gen.simple_isa()
    if pre_symbols:
        isa['predefined'] = {'symbols': [dict(name=n, **({'value': v} if v is not None else {}))
                                         for n, v in pre_symbols.items()]}
    return isa


def world_for(case, lines):
    argv = ['bespokeasm', 'compile', '-c', 'isa.yaml', 'main.asm']
    argv += ['-v'] * case.get('verbosity', 0)          # logging level is not supposed to change what is assembled
    for i, (n, v) in enumerate(case['cli_symbols'].items()):
        sp = case.get('cli_spacing', 0)
        eq = ['=', ' = ', ' =', '= '][(sp + i) % 4] if sp else '='
        argv += ['-D', (' ' if sp == 2 else '') + (n if v is None else f'{n}{eq}{v}')]
    g = case.get('glue', 0)
    if g:
        # comments on any line, with and without a blank before the ';' (a directive is a directive either way)
        tails = ['', '', ' ; c', ';c', '\t;endif', ';#else', ' ; taken from rom\\', ';x\\']
        lines = [ln + tails[(g * 7 + j * (1 + g % 5)) % len(tails)] if ';' not in ln else ln for j, ln in enumerate(lines)]
    return {'files': {f'{PDIR}/isa.yaml': gen.isa_text(isa_for(case['pre_symbols']), 'yaml'),
                      # stored as UTF-8; a lone surrogate stands for one raw byte (a file saved in a legacy code page)
                      f'{PDIR}/main.asm': (('\r\n' if case.get('crlf') else '\n').join(lines) + (
                          '\r\n' if case.get('crlf') else '\n')).encode('utf-8', 'surrogateescape').decode('latin-1')},
            'argv': argv, 'cwd': PDIR, 'env': {'HOME': '/sim/home'}, 'step_budget': 3_000_000}


def image_map(r):
    img = r['files'].get(f'{PDIR}/main.bin')
    if img is None:
        return None
    return {i: ord(c) for i, c in enumerate(img) if ord(c) != 0}


def run_history(case, stats=None, only_last=False):
    """Step the model through case['ops'], assembling every prefix. Returns (violations, observed)."""
    model = CondModel({k: v for k, v in case['pre_symbols'].items()}, {k: v for k, v in case['cli_symbols'].items()})
    lines = []
    viol = []
    obs = {'steps': []}
    nops = len(case['ops'])
    for i, op in enumerate(case['ops']):
        res = model.apply(op)
        if res is None:
            continue
        mode, new = res
        model.snapshot()
        if mode == 'soft':
            closing, _ = model.closing()
            r = child.run_world(world_for(case, lines + new + closing))
            if stats is not None:
                stats['runs'] += 1
                stats['steps'] += r['steps']
            if r['kind'] == 'exit' and r['exit'] == 0 and (image_map(r) or {}).get(model.soft['addr']) == model.soft['forbidden']:
                viol.append('CC-undecodable-name-tested-as-another-symbol')
                obs['steps'].append({'i': i, 'op': op, 'probe_lines': [x.encode('ascii', 'backslashreplace').decode() for x in new]})
            continue
        if mode == 'probe':
            closing, _ = model.closing()
            # the offending line goes where the history stands; the closing lines would never be reached
            r = child.run_world(world_for(case, lines + new + closing))
            if stats is not None:
                stats['runs'] += 1
                stats['steps'] += r['steps']
            if r['kind'] in ('crash', 'wall_timeout') or r.get('gaps'):
                obs['harness'] = f'{r["kind"]} {r.get("gaps")}'
                continue
            if r['kind'] == 'exit' and r['exit'] == 0:
                viol.append('CC-accepted-' + (op.get('kind') or 'use-of-unselected-definition'))
                obs['steps'].append({'i': i, 'op': op, 'probe_lines': new, 'exit': 0})
            continue
        lines = lines + new
        if only_last and i < nops - 1:
            continue
        closing, mem = model.closing()
        r = child.run_world(world_for(case, lines + closing))
        if stats is not None:
            stats['runs'] += 1
            stats['steps'] += r['steps']
        if r['kind'] in ('crash', 'wall_timeout') or r.get('gaps'):
            obs['harness'] = f'{r["kind"]} {r.get("gaps")}'
            continue
        expected = {a: b for a, b in mem.items() if b != 0}
        if r['kind'] != 'exit' or r['exit'] != 0:
            viol.append('CC-valid-history-rejected')
            obs['steps'].append({'i': i, 'op': op, 'exit': r['exit'], 'kind': r['kind'], 'exc': (r.get('exc') or '')[:160]})
            break
        got = image_map(r)
        if got != expected:
            extra = sorted(set(got) - set(expected))
            missing = sorted(set(expected) - set(got))
            if extra and not missing:
                viol.append('CC-unselected-line-assembled')
            elif missing and not extra:
                viol.append('CC-selected-line-dropped')
            else:
                viol.append('CC-image-differs-from-model')
            obs['steps'].append({'i': i, 'op': op, 'expected': {hex(a): b for a, b in sorted(expected.items())},
                                 'got': {hex(a): b for a, b in sorted(got.items())}})
            break
    obs['lines'] = lines
    obs['path_len'] = len(model.path)
    return sorted(set(viol)), obs, model


def check_xproc(case):
    """the complete history, assembled once by a real interpreter"""
    from sim import xproc
    model = CondModel(dict(case['pre_symbols']), dict(case['cli_symbols']))
    lines = []
    for op in case['ops']:
        res = model.apply(copy.deepcopy(op))
        if res is None or res[0] in ('probe', 'soft'):
            continue
        lines += res[1]
    closing, mem = model.closing()
    rr = xproc.run_real(world_for(case, lines + closing), PDIR, hashseed=case['xproc'].get('hashseed', 0),
                        pyopt=case['xproc'].get('pyopt', 0))
    expected = {a: b for a, b in mem.items() if b != 0}
    v = []
    obs = {'xproc': case['xproc'], 'exit': rr['exit'], 'stderr': rr['stderr'][-200:], 'lines': lines}
    if rr['kind'] != 'exit' or rr['exit'] != 0:
        v.append('CC-valid-history-rejected')
    else:
        img = rr['files'].get(f'{PDIR}/main.bin')
        got = None if img is None else {i: ord(ch) for i, ch in enumerate(img) if ord(ch) != 0}
        if got != expected:
            v.append('CC-image-differs-from-model')
            obs['expected'] = {hex(a): b for a, b in sorted(expected.items())}
            obs['got'] = None if got is None else {hex(a): b for a, b in sorted(got.items())}
    return {'violations': v, 'observed': obs}


def check_case(case):
    if case.get('xproc'):
        return check_xproc(case)
    v, obs, model = run_history(case)
    return {'violations': v, 'observed': obs}


def shrink_paths(case):
    return [('ops',)]


def simplify(case):
    for key in ('pre_symbols', 'cli_symbols'):
        for n in list(case[key]):
            c = copy.deepcopy(case)
            del c[key][n]
            yield c
    for key in ('glue', 'crlf', 'verbosity', 'cli_spacing'):
        if case.get(key):
            c = copy.deepcopy(case)
            c[key] = 0
            yield c


# -----------------------------------------------------------------------------------------------
class Violation(Exception):
    def __init__(self, classes, case, obs):
        super().__init__(f'{classes}')
        self.classes = classes
        self.case = case
        self.obs = obs


def make_machine(stats, box):
    from hypothesis import strategies as st
    from hypothesis.stateful import RuleBasedStateMachine, initialize, rule, precondition

    sym = st.sampled_from(SYMS)
    small = st.integers(min_value=0, max_value=9)
    special = st.sampled_from(['$F0', '$1f', '0x2A', '%1010', 'b110', 'FFH', '0AH', '$A', 'CH'])
    term = st.one_of(sym, sym, small, small, special)

    @st.composite
    def cond(draw):
        form = draw(st.sampled_from(['cmp', 'cmp', 'bare', 'bare_minus', 'cmp_sum', 'bare_bits', 'cmp_bits']))
        if form == 'bare_bits':
            return {'form': form, 'terms': [draw(term), draw(st.integers(min_value=0, max_value=4))],
                    'bop': draw(st.sampled_from(['>>', '<<', '&', '|']))}
        if form == 'cmp_bits':
            return {'form': form, 'terms': [draw(term), draw(st.integers(min_value=0, max_value=4)), draw(small)],
                    'bop': draw(st.sampled_from(['>>', '<<', '&'])), 'op': draw(st.sampled_from(CMP))}
        if form == 'cmp':
            a = draw(term)
            # boundary: both sides equal (decides between < and <=, > and >=) in a good share of the comparisons
            b = a if draw(st.integers(0, 3)) == 0 else draw(term)
            return {'form': form, 'terms': [a, b], 'op': draw(st.sampled_from(CMP)),
                    'quote': draw(st.sampled_from(['', '', '"', "'"]))}
        if form == 'bare':
            return {'form': form, 'terms': [draw(term)]}
        if form == 'bare_minus':
            return {'form': form, 'terms': [draw(term), draw(term)]}
        return {'form': form, 'terms': [draw(term), draw(term), draw(term)], 'op': draw(st.sampled_from(CMP))}

    class Machine(RuleBasedStateMachine):
        def __init__(self):
            super().__init__()
            self.case = {'pre_symbols': {}, 'cli_symbols': {}, 'ops': []}
            self.model = None
            self.lines = []
            self.marker = 0

        @initialize(pre=st.dictionaries(st.sampled_from(SYMS[:3]), st.one_of(st.none(), small.map(str)), max_size=2),
                    cli=st.dictionaries(st.sampled_from(SYMS[2:]), st.one_of(st.none(), small.map(str)), max_size=2),
                    glue=st.sampled_from([0, 0, 1, 2, 3, 4, 5]))
        def init(self, pre, cli, glue):
            cli = {k: v for k, v in cli.items() if k not in pre}
            self.case['pre_symbols'] = dict(pre)
            self.case['cli_symbols'] = dict(cli)
            self.case['crlf'] = (len(pre) + len(cli)) % 3 == 2
            self.case['glue'] = glue
            self.case['cli_spacing'] = (len(pre) * 2 + len(cli)) % 3       # blanks around '=' / before the name in -D
            self.case['verbosity'] = [0, 0, 1, 2, 3][(len(pre) + 3 * len(cli) + sum(map(len, pre))) % 5]         # some histories are stored with CR LF line ends
            self.model = CondModel(dict(pre), dict(cli))
            stats['histories'] += 1

        def do(self, op):
            res = self.model.apply(copy.deepcopy(op))
            if res is None:
                return
            self.case['ops'].append(op)
            mode, new = res
            self.model.snapshot()
            closing, mem = self.model.closing()
            if mode == 'soft':
                r = child.run_world(world_for(self.case, self.lines + new + closing))
                stats['runs'] += 1
                stats['evaluations'] += 1
                stats['steps'] += r['steps']
                soft = self.model.soft
                if r['kind'] == 'exit' and r['exit'] == 0 and (image_map(r) or {}).get(soft['addr']) == soft['forbidden']:
                    raise Violation(['CC-undecodable-name-tested-as-another-symbol'], copy.deepcopy(self.case), {})
                return
            if mode == 'probe':
                r = child.run_world(world_for(self.case, self.lines + new + closing))
                stats['runs'] += 1
                stats['evaluations'] += 1
                stats['steps'] += r['steps']
                if r['kind'] in ('crash', 'wall_timeout') or r.get('gaps'):
                    stats['harness'].append(f'{r["kind"]} {r.get("gaps")}')
                    return
                if r['kind'] == 'exit' and r['exit'] == 0:
                    cls = ['CC-accepted-' + (op.get('kind') or 'use-of-unselected-definition')]
                    raise Violation(cls, copy.deepcopy(self.case), {'probe': new})
                return
            self.lines = self.lines + new
            r = child.run_world(world_for(self.case, self.lines + closing))
            stats['runs'] += 1
            stats['evaluations'] += 1
            stats['steps'] += r['steps']
            if r['kind'] in ('crash', 'wall_timeout') or r.get('gaps'):
                stats['harness'].append(f'{r["kind"]} {r.get("gaps")}')
                return
            expected = {a: b for a, b in mem.items() if b != 0}
            if r['kind'] != 'exit' or r['exit'] != 0:
                raise Violation(['CC-valid-history-rejected'], copy.deepcopy(self.case),
                                {'exc': (r.get('exc') or '')[:160]})
            got = image_map(r)
            if got != expected:
                extra = set(got) - set(expected)
                missing = set(expected) - set(got)
                cls = 'CC-unselected-line-assembled' if extra and not missing else (
                    'CC-selected-line-dropped' if missing and not extra else 'CC-image-differs-from-model')
                raise Violation([cls], copy.deepcopy(self.case), {})

        @rule(c=cond())
        def open_if(self, c):
            self.do({'op': 'if', 'cond': c})

        @rule(name=sym, neg=st.booleans())
        def open_ifdef(self, name, neg):
            self.do({'op': 'ifdef', 'name': name, 'neg': neg})

        @precondition(lambda self: self.model is not None and self.model.frames)
        @rule(c=cond())
        def elif_(self, c):
            self.do({'op': 'elif', 'cond': c})

        @precondition(lambda self: self.model is not None and self.model.frames)
        @rule()
        def else_(self):
            self.do({'op': 'else'})

        @precondition(lambda self: self.model is not None and self.model.frames)
        @rule()
        def endif(self):
            self.do({'op': 'endif'})

        @rule(name=sym, value=st.one_of(st.none(), small, small, st.tuples(sym, small).map(lambda t: f'{t[0]}+{t[1]}'),
                                        sym, special))
        def define(self, name, value):
            self.do({'op': 'define', 'name': name, 'value': value})

        @rule(name=sym)
        def sym_use(self, name):
            self.do({'op': 'sym_use', 'name': name})

        @rule(name=sym, neg=st.booleans(), v=small, tail=st.sampled_from(['else', 'endif', 'nested']))
        def idiom_define_flips_own_condition(self, name, neg, v, tail):
            """#ifndef S / #define S v / X / #else / Y / #endif  (and the #ifdef ... #else #define variant)"""
            if self.model is None or name in self.model.symbols or len(self.model.frames) >= 3:
                return
            self.do({'op': 'ifdef', 'name': name, 'neg': neg})
            if not neg:
                self.marker_()
                self.do({'op': 'else'})
            self.do({'op': 'define', 'name': name, 'value': v})
            self.marker_()
            if tail == 'nested':
                self.do({'op': 'ifdef', 'name': name, 'neg': False})
                self.marker_()
                self.do({'op': 'endif'})
            if neg and tail != 'endif':
                self.do({'op': 'else'})
                self.marker_()
            self.do({'op': 'endif'})
            self.do({'op': 'ifdef', 'name': name, 'neg': False})
            self.marker_()
            self.do({'op': 'endif'})

        @rule(a=sym, b=sym, v=small)
        def idiom_late_definition(self, a, b, v):
            """#define A B+1 while B is undefined; A mentioned in excluded code; #define B v; #if A == v+1"""
            m = self.model
            if m is None or a == b or a in m.symbols or b in m.symbols or len(m.frames) >= 3:
                return
            self.do({'op': 'define', 'name': a, 'value': f'{b}+1'})
            self.do({'op': 'if', 'cond': {'form': 'cmp', 'terms': [0, 1], 'op': '=='}})
            self.do({'op': 'sym_use', 'name': a})
            self.do({'op': 'endif'})
            self.do({'op': 'define', 'name': b, 'value': v})
            self.do({'op': 'if', 'cond': {'form': 'cmp', 'terms': [a, v + 1], 'op': '=='}})
            self.marker_()
            self.do({'op': 'else'})
            self.marker_()
            self.do({'op': 'endif'})
            self.do({'op': 'sym_use', 'name': a})

        @rule(name=sym, byte=st.sampled_from([0xD6, 0xF6, 0xDF, 0xB5, 0xE9]), tail=st.sampled_from(['SSE', '_XL', '', 'x1']))
        def legacy_code_page_name(self, name, byte, tail):
            self.do({'op': 'raw_ifdef', 'name': name, 'byte': byte, 'tail': tail})

        @rule(r=sym, v=st.sampled_from([0, 0, 1, 2, 5, 20, 50]), wrap=st.sampled_from(['', '', 'ifdef', 'if0']))
        def idiom_division_guard(self, r, v, wrap):
            """#if R == 0 / X / #elif 100 / R > 9 / Y / #else / Z / #endif - the #elif must not be evaluated when R is 0
            (nor when the whole chain sits in unselected code)"""
            m = self.model
            if m is None or len(m.frames) >= 2:
                return
            if r not in m.symbols:
                self.do({'op': 'define', 'name': r, 'value': v})
            if wrap == 'ifdef':
                free = [x for x in SYMS if x not in m.symbols]
                if not free:
                    return
                self.do({'op': 'ifdef', 'name': free[0], 'neg': False})
            elif wrap == 'if0':
                self.do({'op': 'if', 'cond': {'form': 'cmp', 'terms': [0, 1], 'op': '=='}})
            n = len(self.case['ops'])
            self.do({'op': 'if', 'cond': {'form': 'cmp', 'terms': [r, 0], 'op': '=='}})
            if len(self.case['ops']) > n:
                self.marker_()
                self.do({'op': 'elif', 'cond': {'form': 'div', 'terms': [100, r, 9], 'op': '>'}})
                self.marker_()
                self.do({'op': 'else'})
                self.marker_()
                self.do({'op': 'endif'})
            if wrap:
                self.do({'op': 'endif'})
            self.marker_()

        @rule(a=sym, b=sym, va=st.integers(0, 1), vb=st.integers(0, 1))
        def idiom_feature_flags(self, a, b, va, vb):
            """#define A 0|1 / #define B 0|1 / #if A / X / #elif B / Y / #else / Z / #endif : flags tested by bare name"""
            m = self.model
            if m is None or a == b or len(m.frames) >= 3:
                return
            if a not in m.symbols:
                self.do({'op': 'define', 'name': a, 'value': va})
            if b not in m.symbols:
                self.do({'op': 'define', 'name': b, 'value': vb})
            n = len(self.case['ops'])
            self.do({'op': 'if', 'cond': {'form': 'bare', 'terms': [a]}})
            if len(self.case['ops']) == n:
                return            # A does not expand to a number here: not a flag
            self.marker_()
            self.do({'op': 'elif', 'cond': {'form': 'bare', 'terms': [b]}})
            self.marker_()
            self.do({'op': 'else'})
            self.marker_()
            self.do({'op': 'endif'})
            self.marker_()

        @rule(word=st.sampled_from(['#unmute', '#emit']), which=st.sampled_from(['unmute', 'mute', 'both']),
              opener=st.sampled_from(['if0', 'ifdef', 'else']))
        def idiom_mute_toggle_in_unselected_code(self, word, which, opener):
            """#mute / <unselected branch containing #unmute and/or #mute> / bytes that must still be muted / #unmute"""
            m = self.model
            if m is None or len(m.frames) >= 3 or not m.active():
                return
            self.do({'op': 'mute'})
            self.marker_()
            if opener == 'if0':
                self.do({'op': 'if', 'cond': {'form': 'cmp', 'terms': [0, 1], 'op': '=='}})
            elif opener == 'ifdef':
                free = [x for x in SYMS if x not in m.symbols]
                if not free:
                    return
                self.do({'op': 'ifdef', 'name': free[0], 'neg': False})
            else:
                self.do({'op': 'if', 'cond': {'form': 'cmp', 'terms': [1, 1], 'op': '=='}})
                self.marker_()
                self.do({'op': 'else'})
            if which in ('unmute', 'both'):
                self.do({'op': 'unmute', 'word': word})
            if which in ('mute', 'both'):
                self.do({'op': 'mute'})
            self.marker_()
            self.do({'op': 'endif'})
            self.marker_()
            self.do({'op': 'unmute', 'word': '#unmute'})
            self.marker_()

        @rule(name=sym, z=st.sampled_from(ZONES), v=small)
        def idiom_definitions_while_muted(self, name, z, v):
            """#mute / #define S / #create_memzone Z / #unmute : muting hides bytes, not definitions"""
            m = self.model
            if m is None or not m.active() or len(m.frames) >= 3:
                return
            self.do({'op': 'mute'})
            self.do({'op': 'define', 'name': name, 'value': v})
            self.do({'op': 'mkzone', 'name': z, 'idx': ZONES.index(z)})
            self.marker_()
            self.do({'op': 'unmute', 'word': '#unmute'})
            self.do({'op': 'ifdef', 'name': name, 'neg': False})
            self.marker_()
            self.do({'op': 'else'})
            self.marker_()
            self.do({'op': 'endif'})
            self.marker += 1
            self.do({'op': 'usezone', 'name': z, 'k': 1 + (self.marker * 7) % 200})
            self.do({'op': 'usezone', 'name': 'GLOBAL', 'k': 3})

        @rule(c1=cond(), c2=cond(), opener=st.sampled_from(['if0', 'else']))
        def idiom_elif_chain_in_unselected_code(self, c1, c2, opener):
            """a whole #if/#elif/#else chain nested in unselected code: none of its branches may be selected"""
            m = self.model
            if m is None or not m.active() or len(m.frames) >= 2:
                return
            if opener == 'if0':
                self.do({'op': 'if', 'cond': {'form': 'cmp', 'terms': [0, 1], 'op': '=='}})
            else:
                self.do({'op': 'if', 'cond': {'form': 'cmp', 'terms': [1, 1], 'op': '=='}})
                self.do({'op': 'else'})
            self.do({'op': 'if', 'cond': c1})
            self.marker_()
            self.do({'op': 'elif', 'cond': {'form': 'cmp', 'terms': [2, 2], 'op': '=='}})
            self.marker_()
            self.do({'op': 'elif', 'cond': c2})
            self.marker_()
            self.do({'op': 'else'})
            self.marker_()
            self.do({'op': 'endif'})
            self.marker_()
            self.do({'op': 'endif'})
            self.marker_()

        def marker_(self):
            self.marker += 1
            self.do({'op': 'marker', 'k': 1 + (self.marker * 7) % 200})

        @rule()
        def marker(self):
            self.marker += 1
            self.do({'op': 'marker', 'k': 1 + (self.marker * 7) % 200})

        @rule(name=st.sampled_from(CONSTS), value=st.integers(min_value=1, max_value=200))
        def const(self, name, value):
            self.do({'op': 'const', 'name': name, 'value': value})

        @rule(name=st.sampled_from(CONSTS))
        def use_const(self, name):
            self.do({'op': 'use_const', 'name': name})

        @rule(name=st.sampled_from(LABELS))
        def label(self, name):
            self.do({'op': 'label', 'name': name})

        @rule(name=st.sampled_from(LABELS))
        def use_label(self, name):
            self.do({'op': 'use_label', 'name': name})

        @rule(name=st.sampled_from(ZONES))
        def mkzone(self, name):
            self.do({'op': 'mkzone', 'name': name, 'idx': ZONES.index(name)})

        @rule(name=st.sampled_from(ZONES + ['GLOBAL']))
        def usezone(self, name):
            self.marker += 1
            self.do({'op': 'usezone', 'name': name, 'k': 1 + (self.marker * 7) % 200})

        @rule()
        def mute(self):
            self.do({'op': 'mute'})

        @rule(word=st.sampled_from(['#unmute', '#emit']))
        def unmute(self, word):
            self.do({'op': 'unmute', 'word': word})

        @rule(kind=st.sampled_from(['stray_else', 'stray_elif', 'stray_endif', 'else_after_else', 'elif_after_else']))
        def illformed(self, kind):
            self.do({'op': 'illformed', 'kind': kind})

        def teardown(self):
            if self.model is not None:
                box['paths'].add(H(tuple(self.model.path)) & 0xFFFFFFFFFFFF)
                if any(f for f in self.model.path if f[0]):
                    box['nontrivial'] += 1
                for k, v in self.model.probes.items():
                    box['probes'][k] = box['probes'].get(k, 0) + v
                if len(self.lines) >= 5 and any(x.startswith('#if') for x in self.lines) and len(box['xproc']) < 3:
                    box['xproc'].append(copy.deepcopy(self.case))
                if len(box['samples']) < 1 and len(self.lines) >= 6 and sum(1 for x in self.lines if x.startswith('#if')) >= 2:
                    box['samples'].append({'history_lines': list(self.lines),
                                           'pre_symbols': self.case['pre_symbols'],
                                           'cli_symbols': self.case['cli_symbols']})
    return Machine


def explore(subseed, cfg):
    import hypothesis
    from hypothesis import settings, HealthCheck, Phase
    from hypothesis.stateful import run_state_machine_as_test
    stats = {'runs': 0, 'evaluations': 0, 'steps': 0, 'histories': 0, 'harness': []}
    box = {'paths': set(), 'probes': {}, 'samples': [], 'nontrivial': 0, 'xproc': []}
    out = {'evaluations': 0, 'runs': 0, 'steps': 0, 'probes': {}, 'faults_fired': {}, 'discarded': {},
           'violations': [], 'samples': [], 'distinct': set(), 'harness': [], 'sim_clock_s': 0.0}
    Machine = make_machine(stats, box)
    st_ = settings(max_examples=cfg.get('examples', 14), stateful_step_count=cfg.get('steps', 22), database=None,
                   deadline=None, report_multiple_bugs=False, suppress_health_check=list(HealthCheck),
                   phases=[Phase.generate], derandomize=False, print_blob=False)
    try:
        run_state_machine_as_test(hypothesis.seed(subseed & 0xFFFFFFFFFFFF)(Machine), settings=st_)
    except Violation as e:
        for c in e.classes:
            out['violations'].append({'case': e.case, 'class': c, 'group': 'history'})
    except BaseException as e:           # hypothesis wraps / flaky reports: classify as harness problem unless ours
        cause = e
        seen = 0
        while cause is not None and not isinstance(cause, Violation) and seen < 6:
            cause = cause.__cause__ or cause.__context__
            seen += 1
        if isinstance(cause, Violation):
            for c in cause.classes:
                out['violations'].append({'case': cause.case, 'class': c, 'group': 'history'})
        else:
            out['harness'].append(f'hypothesis: {type(e).__name__}: {str(e)[:200]}')
    # cross-process tier: a few complete histories are assembled by real interpreters (real hash seed, python -O / -OO)
    if not out['violations']:
        for i, hc in enumerate(box['xproc']):
            c = copy.deepcopy(hc)
            c['xproc'] = {'pyopt': [1, 2, 0][i % 3], 'hashseed': (subseed + i) % 4001}
            try:
                res = check_case(c)
            except Exception as e:
                out['harness'].append(f'xproc: {type(e).__name__}: {e}')
                continue
            stats['runs'] += 1
            stats['evaluations'] += 1
            box['probes']['xproc_runs'] = box['probes'].get('xproc_runs', 0) + 1
            for vv in res['violations']:
                out['violations'].append({'case': c, 'class': vv, 'group': 'xproc'})
    out['evaluations'] = stats['evaluations']
    out['runs'] = stats['runs']
    out['steps'] = stats['steps']
    out['harness'] += stats['harness'][:3]
    out['probes'] = dict(box['probes'])
    out['probes']['histories'] = stats['histories']
    out['probes']['histories_with_a_chain'] = box['nontrivial']
    out['samples'] = box['samples']
    out['distinct'] = sorted(box['paths'])
    return out
