"""C17 - Including a file is equivalent to assembling its text in place.

Workload: a logical multi-file program is generated once and materialised twice in the simulated file system:
the *split* world (real #include lines, scoped labels, files spread over the main directory and several include
directories) and the *in-place reference* (one file; see sim/progtree.py).  Both are assembled by the real code.
Negative worlds (must be rejected): cross-file file-label use, local-label leakage in either direction, double
inclusion, cycles, missing file, ambiguous name; faults on the include (EACCES/EIO/vanish).  Schedules: iteration
order of the include-directory set (SimSet), order / spelling / duplication / symlink aliases of -I directories.
"""
import copy
import json
import os
import random
import re

from sim.runner import H
from sim import child, gen, progtree

ID = 'C17'
LEVEL = 'exploration'
TIERS = {
    'quick': {'subseeds': 320, 'schedules': 2, 'wall_budget': 200, 'min_runs': 250},
    'thorough': {'subseeds': 8000, 'schedules': 4, 'wall_budget': 3000, 'min_runs': 400},
}
RULE = ('one case = one logical multi-file program x one world kind (positive / negative / fault) x one schedule '
        '(SimSet seed for the include-directory set, -I order and spelling); each case runs the split world and the '
        'in-place reference world through the real CLI in the simulator; non-trivial = the program has >= 1 include; '
        'distinct = distinct (file-tree shape, directory placement, -I spelling vector, kind) digests')
ASSUMPTIONS = [
    'the in-place reference is produced by the generator (scoped labels renamed to unique globals, pasted chunks bracketed by .memzone GLOBAL / .memzone <includer zone>), not by an independent assembler: both worlds run the same real code',
    'excluded from generation because the property does not fix their meaning: the same file reachable under two names, include lines with trailing text, #include without a space',
]
COMPONENTS = {'real': ['bespokeasm (whole package)', 'click', 'yaml', 'json', 'intelhex'],
              'stub': ['file system (SimFS incl. symlinked alias directories)', 'cwd/env', 'clock', 'stdout',
                       'set iteration order (SimSet)', 'process boundary (fork)']}
PDIR = '/sim/p'


def _spell(d, how):
    if how == 'plain':
        return d
    if how == 'dot':
        return './' + d
    if how == 'slash':
        return d + '/'
    if how == 'abs':
        return f'{PDIR}/{d}'
    if how == 'alias':
        return 'alias_' + d.replace('/', '_')
    if how == 'dotdot':
        # /sim/q/lnk_x is a link to the first component of d under the project: `lnk_x/..` is the project directory
        # (physically), while a textual collapse would look under /sim/q
        return '/sim/q/lnk_' + d.split('/')[0] + '/../' + d
    return d


def build_worlds(case):
    """-> (split world, reference world)"""
    main = case['tree']
    table = ['  .2byte ' + g for g in case.get('table', [])] + ['  .byte ' + k for k in case.get('ctable', [])] + [
        gen.SENTINEL]
    files = {}
    for rel, lines in progtree.split_files(main).items():
        text = list(lines)
        if rel == 'main.asm':
            text += table
        files[f'{PDIR}/{rel}'] = ('\n'.join(text) + '\n') if text else ''       # no lines: a file of zero bytes
    for rel, lines in case.get('extra_files', {}).items():
        files[f'{PDIR}/{rel}'] = '\n'.join(lines) + '\n'
    pre_links = {f'{PDIR}/{rel}': f'{PDIR}/{tgt}' for rel, tgt in case.get('extra_links', {}).items()}
    if any('twice9.asm' in ln for ln in files.get(f'{PDIR}/main.asm', '').split('\n')):
        # a name that exists in two search directories, but is only ever named by an #include in unselected code
        files[f'{PDIR}/twice9.asm'] = '  .byte $T1\n'.replace('$T1', '$71')
        files[f'{PDIR}/tw2/twice9.asm'] = '  .byte $72\n'
    isa = {f'{PDIR}/{case["isa_name"]}': case['isa_text']}
    sched = case.get('sched', {})
    dirs = list(case.get('inc_dirs', progtree.include_dirs(main)))
    if any(it['t'] == 'line' and 'twice9.asm' in it['s'] for it in main['items']) and 'tw2' not in dirs:
        dirs.append('tw2')
    order = sched.get('order')
    if order:
        dirs = [dirs[i] for i in order if i < len(dirs)]
    spells = sched.get('spell', [])
    links = dict(pre_links)
    argv_dirs = []
    for i, d in enumerate(dirs):
        how = spells[i] if i < len(spells) else 'plain'
        sp = _spell(d, how)
        if how == 'alias':
            links[f'{PDIR}/{sp}'] = f'{PDIR}/{d}'
        if how == 'dotdot':
            links['/sim/q/lnk_' + d.split('/')[0]] = f'{PDIR}/' + d.split('/')[0]
            for rel in progtree.split_files(main):
                if os.path.dirname(rel) == d:
                    files[f'/sim/q/{rel}'] = '  .byte $DE, $C3\n'        # decoy where the textual collapse points
        argv_dirs.append(sp)
    for i in sched.get('dups', []):
        if i < len(argv_dirs):
            argv_dirs.append(_spell(dirs[i], 'dot'))
    cwd = PDIR
    main_arg, isa_arg = 'main.asm', case['isa_name']
    if sched.get('src_dir_again'):
        # the source file's own directory supplied once more as a search directory, under some spelling
        argv_dirs.append({'dot': '.', 'abs': PDIR, 'slash': './'}[sched['src_dir_again']])
    if sched.get('cwd_parent') and not sched.get('cwd_elsewhere') and not sched.get('main_symlink'):
        # started from the parent directory: the source is named with a directory part and the -I directories are
        # given relative to the WORKING directory (where else), not relative to the source file
        cwd = '/sim'
        main_arg, isa_arg = 'p/main.asm', f'p/{case["isa_name"]}'
        argv_dirs = [d if d.startswith('/') else os.path.normpath(f'p/{d}') for d in argv_dirs]
        for rel in progtree.split_files(main):
            if '/' in rel:
                # decoy under <source dir>/p/... : where a relative -I would point if resolved against the source file
                files[f'{PDIR}/p/{rel}'] = '  .byte $DE, $C2\n'
    if sched.get('cwd_elsewhere'):
        # started from another directory that happens to hold files named like the included ones (never searched)
        cwd = '/sim/w'
        main_arg, isa_arg = f'{PDIR}/main.asm', f'{PDIR}/{case["isa_name"]}'
        argv_dirs = [d if d.startswith('/') else os.path.normpath(f'{PDIR}/{d}') for d in argv_dirs]
        for rel in list(progtree.split_files(main)) + ['nofile.asm']:
            files[f'/sim/w/{os.path.basename(rel)}'] = '  .byte $DE, $C0\n'
    argv = ['bespokeasm', 'compile', '-c', isa_arg, main_arg, '-p', '-t', 'intel_hex'] + ['-v'] * sched.get('verbosity', 0)
    for d in argv_dirs:
        argv += ['-I', d]
    if sched.get('main_symlink') and not sched.get('cwd_elsewhere'):
        # the file named on the command line is a symbolic link to a file stored elsewhere; included files are looked
        # up next to the NAME given, not next to the link's target (where a decoy with the same name lies)
        files['/sim/shared/main.asm'] = files.pop(f'{PDIR}/main.asm')
        links[f'{PDIR}/main.asm'] = '/sim/shared/main.asm'
        for rel in progtree.split_files(main):
            if rel != 'main.asm' and '/' not in rel:
                files[f'/sim/shared/{rel}'] = '  .byte $DE, $C1\n'
    if sched.get('crlf'):
        # some (not all) files of the split world are stored with CR LF line ends
        for i, pth in enumerate(sorted(files)):
            if pth.endswith('.asm') and i % 2 == 0:
                files[pth] = files[pth].replace('\n', '\r\n')
    split = {'files': {**isa, **files}, 'links': links, 'argv': argv, 'cwd': cwd, 'env': {'HOME': '/sim/home'},
             'set_seed': sched.get('set_seed'), 'faults': list(case.get('faults', [])),
             'dirs': [f'{PDIR}/{d}' for d in dirs] + [f'{PDIR}/{d}' for d in case.get('extra_dirs', [])],
             'step_budget': 4_000_000}
    ref_lines = progtree.reference_lines(main) + table
    ref = {'files': {**isa, f'{PDIR}/main.asm': '\n'.join(ref_lines) + '\n'},
           'argv': ['bespokeasm', 'compile', '-c', case['isa_name'], 'main.asm', '-p', '-t', 'intel_hex'],
           'cwd': PDIR, 'env': {'HOME': '/sim/home'}, 'step_budget': 4_000_000}
    return split, ref


def failed(r):
    return r['kind'] == 'exception' or (r['kind'] == 'exit' and r['exit'] != 0)


def check_case(case, ref_result=None):
    split, ref = build_worlds(case)
    if case.get('xproc'):
        # negative world in a real interpreter: must be rejected, image must not appear
        from sim import xproc
        rr = xproc.run_real(split, PDIR, hashseed=case['xproc'].get('hashseed', 0), pyopt=case['xproc'].get('pyopt', 0))
        v = []
        obs = {'kind': case.get('kind'), 'xproc': case['xproc'], 'exit': rr['exit'], 'stderr': rr['stderr'][-200:]}
        if 'ess_count' in case and count_ess(case['tree']) != case['ess_count']:
            return {'violations': v, 'observed': obs, 'split': None, 'ref': None}
        if rr['kind'] == 'exit' and rr['exit'] == 0:
            v.append(f'INC-accepted-{case.get("kind")}')
        elif rr['files'].get(f'{PDIR}/main.bin') is not None:
            v.append('INC-image-written-on-rejected-include')
        return {'violations': v, 'observed': obs, 'split': None, 'ref': None}
    rs = child.run_world(split)
    kind = case.get('kind', 'positive')
    v = []
    obs = {'kind': kind, 'split': {'k': rs['kind'], 'exit': rs['exit'], 'exc': (rs.get('exc') or '')[:160]},
           'argv': split['argv'][8:], 'gaps': rs.get('gaps', [])}
    img = f'{PDIR}/main.bin'
    if rs['kind'] in ('step_budget',):
        v.append('INC-nontermination')
        return {'violations': v, 'observed': obs, 'split': rs, 'ref': None}
    if rs['kind'] in ('wall_timeout', 'crash'):
        return {'violations': v, 'observed': obs, 'split': rs, 'ref': None}
    if kind == 'positive':
        rr = ref_result or child.run_world(ref)
        obs['ref'] = {'k': rr['kind'], 'exit': rr['exit'], 'exc': (rr.get('exc') or '')[:160]}
        if failed(rr) or rr['kind'] != 'exit':
            if not failed(rs):
                v.append('INC-split-accepts-what-in-place-rejects')
            return {'violations': v, 'observed': obs, 'split': rs, 'ref': rr, 'discard': 'reference fails'}
        if failed(rs):
            v.append('INC-split-rejected')
        else:
            # images are compared exactly; the reference emits zone brackets only where they cannot become the
            # address-wise last object (see progtree.reference_lines)
            ia, ib = (rs['files'].get(img) or ''), (rr['files'].get(img) or '')
            strip_w = lambda t: '\n'.join(x for x in t.split('\n') if x.startswith(':'))      # the Intel HEX records
            if ia != ib:
                v.append('INC-image-differs')
                a, b = rs['files'].get(img) or '', rr['files'].get(img) or ''
                obs['first_diff'] = next((i for i in range(min(len(a), len(b))) if a[i] != b[i]), min(len(a), len(b)))
                obs['sizes'] = [len(a), len(b)]
            elif strip_w(rs['stdout']) != strip_w(rr['stdout']):
                v.append('INC-hex-differs')
        return {'violations': v, 'observed': obs, 'split': rs, 'ref': rr}
    # negative and fault worlds: must be rejected, fail closed
    if 'ess_count' in case and count_ess(case['tree']) != case['ess_count']:
        obs['skipped'] = 'essential structure of the negative world was removed'
        return {'violations': v, 'observed': obs, 'split': rs, 'ref': None}
    if not failed(rs):
        v.append(f'INC-accepted-{kind}')
    else:
        wopens = [e for e in rs['events'] if e[1] == 'opened_w' and e[2] == img]
        if rs['files'].get(img) is not None or wopens:
            v.append('INC-image-written-on-rejected-include')
    return {'violations': v, 'observed': obs, 'split': rs, 'ref': None}


def shrink_paths(case):
    paths = []

    def walk(f, prefix):
        paths.append(prefix + ('items',))
        for i, it in enumerate(f['items']):
            if it['t'] == 'inc':
                walk(it['file'], prefix + ('items', i, 'file'))
    walk(case['tree'], ('tree',))
    # deepest first so that indices of outer lists stay valid while inner lists shrink
    paths.sort(key=lambda p: -len(p))
    out = paths + [('table',)]
    if case.get('faults'):
        out.append(('faults',))
    return out


# -----------------------------------------------------------------------------------------------
def gen_sched(rnd, ndirs, trivial=False):
    if trivial or ndirs == 0:
        sc = {'set_seed': None if trivial else rnd.randrange(1 << 30)}
        if not trivial and rnd.random() < 0.4:
            sc['src_dir_again'] = rnd.choice(['dot', 'abs', 'slash'])
        if not trivial and rnd.random() < 0.4:
            sc['cwd_elsewhere'] = True
        return sc
    order = list(range(ndirs))
    rnd.shuffle(order)
    sc = {'set_seed': rnd.randrange(1 << 30), 'order': order,
          'spell': [rnd.choice(['plain', 'dot', 'slash', 'abs', 'alias', 'dotdot']) for _ in range(ndirs)],
          'dups': [rnd.randrange(ndirs)] if rnd.random() < 0.3 else []}
    if rnd.random() < 0.25:
        sc['src_dir_again'] = rnd.choice(['dot', 'abs', 'slash'])
    if rnd.random() < 0.25:
        sc['cwd_elsewhere'] = True
    if rnd.random() < 0.2:
        sc['crlf'] = True
    if rnd.random() < 0.15:
        sc['main_symlink'] = True
    if rnd.random() < 0.2:
        sc['cwd_parent'] = True
    if rnd.random() < 0.3:
        sc['verbosity'] = rnd.choice([1, 2, 3])
    return sc


def strip_wrappers(f):
    """remove every preprocessor line (conditional / mute wrappers, leak detectors) so that everything is active"""
    import re
    items = []
    for it in f['items']:
        if it['t'] == 'line':
            t = it['s'].strip()
            if t.startswith('#') or re.match(r'^KL\d+ = ', t) or re.match(r'^\.byte KL\d+', t):
                continue
            items.append(it)
        else:
            strip_wrappers(it['file'])
            items.append(it)
    f['items'] = items


def negatives(case, rnd, tg):
    """Derive negative worlds from a positive case. Yields (kind, case)."""
    case = copy.deepcopy(case)
    strip_wrappers(case['tree'])
    main = case['tree']
    files = progtree.all_files(main)
    inc_files = files[1:]
    out = []

    def clone():
        return copy.deepcopy(case)

    if inc_files:
        # a file label defined only in an included file, used by the includer after the include (and vice versa)
        c = clone()
        m = c['tree']
        inc = next(it for it in m['items'] if it['t'] == 'inc')['file']
        inc['items'].append({'t': 'line', 's': '_zq:', 'r': 'Fzq:'})
        inc['items'].append({'t': 'line', 's': '  .byte 9', 'r': '  .byte 9'})
        m['items'].append({'t': 'line', 's': '  .2byte _zq', 'r': '  .2byte Fzq'})
        c['kind'] = 'neg-file-label-of-included-used-by-includer'
        out.append(c)
        c = clone()
        m = c['tree']
        idx = next(i for i, it in enumerate(m['items']) if it['t'] == 'inc')
        inc = m['items'][idx]['file']
        m['items'].insert(0, {'t': 'line', 's': '_zq:', 'r': 'Fzq:'})
        m['items'].insert(1, {'t': 'line', 's': '  .byte 9', 'r': '  .byte 9'})
        inc['items'].append({'t': 'line', 's': '  .2byte _zq', 'r': '  .2byte Fzq'})
        c['kind'] = 'neg-file-label-of-includer-used-by-included'
        out.append(c)
        # local label leaking out of the included file into the includer's region after the include
        c = clone()
        m = c['tree']
        idx = next(i for i, it in enumerate(m['items']) if it['t'] == 'inc')
        inc = m['items'][idx]['file']
        inc['items'].append({'t': 'line', 's': 'gzz:', 'r': 'gzz:'})
        inc['items'].append({'t': 'line', 's': '.q7:', 'r': 'Lq7:'})
        inc['items'].append({'t': 'line', 's': '  .byte 7', 'r': '  .byte 7'})
        m['items'].insert(idx, {'t': 'line', 's': 'gzy:', 'r': 'gzy:'})
        m['items'].insert(idx + 2, {'t': 'line', 's': '  .2byte .q7', 'r': '  .2byte Lq7'})
        c['kind'] = 'neg-local-label-of-included-used-after-include'
        out.append(c)
        # local label of the includer's current region used inside the included file (before any label there)
        c = clone()
        m = c['tree']
        idx = next(i for i, it in enumerate(m['items']) if it['t'] == 'inc')
        inc = m['items'][idx]['file']
        m['items'].insert(idx, {'t': 'line', 's': 'gzy:', 'r': 'gzy:'})
        m['items'].insert(idx + 1, {'t': 'line', 's': '.q7:', 'r': 'Lq7:'})
        m['items'].insert(idx + 2, {'t': 'line', 's': '  .byte 7', 'r': '  .byte 7'})
        inc['items'].insert(0, {'t': 'line', 's': '  .2byte .q7', 'r': '  .2byte Lq7'})
        c['kind'] = 'neg-local-label-of-includer-used-in-included'
        out.append(c)
        # double inclusion: the same file included again (directly in main / from another file)
        c = clone()
        m = c['tree']
        first = next(it for it in m['items'] if it['t'] == 'inc')
        holder = rnd.choice(progtree.all_files(m))
        dup = {'t': 'inc', 'file': {'name': first['file']['name'], 'dir': first['file']['dir'], 'items': [],
                                    'idx': 99, 'dup': True}}
        # the duplicate include line points at the same path; its (empty) item list is never written because
        # split_files() writes the later occurrence last -> keep the real content by putting the dup FIRST
        holder['items'].append(dup)
        c['kind'] = 'neg-double-inclusion'
        c['dup_of'] = progtree.relpath(first['file'])
        out.append(c)
        # cycle: an included file includes main.asm (or itself)
        c = clone()
        m = c['tree']
        inc = next(it for it in m['items'] if it['t'] == 'inc')['file']
        target = rnd.choice(['self', 'main'])
        nm = inc['name'] if target == 'self' else 'main.asm'
        inc['items'].append({'t': 'line', 's': f'#include "{nm}"', 'r': ''})
        c['kind'] = f'neg-cycle-{target}'
        out.append(c)
        # ambiguous: the same name also exists in another search directory (different content)
        c = clone()
        m = c['tree']
        inc = next(it for it in m['items'] if it['t'] == 'inc')['file']
        other = 'zdup' if inc['dir'] != 'zdup' else 'zdup2'
        c['extra_files'] = {f'{other}/{inc["name"]}': ['  .byte $77']}
        c['inc_dirs'] = progtree.include_dirs(m) + [other]
        c['kind'] = 'neg-ambiguous-name'
        out.append(c)
    # double inclusion where the first inclusion was made by a deeper file that has already finished; the file
    # included twice defines no label, so only the inclusion bookkeeping can reject it
    for via_sibling in (False, True, 'respelled', 'empty'):
        c = clone()
        m = c['tree']
        d = rnd.choice(['', 'inc', 'lib/sub'])
        tbl = {'name': 'tbl.asm', 'dir': d, 'idx': 90,
               'items': [{'t': 'line', 's': '  .byte 1, 2, 3', 'r': '  .byte 1, 2, 3'}]}
        if via_sibling == 'empty':
            tbl['items'] = []          # a file of zero bytes: nothing to assemble, but still a file included twice
        nest = {'name': 'nest.asm', 'dir': rnd.choice(['', 'inc']), 'idx': 91,
                'items': [{'t': 'line', 's': '  .byte $11', 'r': '  .byte $11'}, {'t': 'inc', 'file': tbl},
                          {'t': 'line', 's': '  .byte $12', 'r': '  .byte $12'}]}
        pos = rnd.randrange(0, len(m['items']) + 1)
        m['items'].insert(pos, {'t': 'inc', 'file': nest})
        again = {'t': 'inc', 'file': {'name': 'tbl.asm', 'dir': d, 'idx': 92, 'items': [], 'dup': True}}
        if via_sibling == 'respelled':
            # the second inclusion names the file with a path component ("./tbl.asm", "inc/../inc/tbl.asm"):
            # another spelling of a file that has been included already (or no valid include at all) - never accepted
            sp = rnd.choice(['./tbl.asm', './/tbl.asm', (d + '/../' + d + '/tbl.asm') if d else 'x/../tbl.asm'])
            m['items'].insert(pos + 1 + rnd.randrange(0, len(m['items']) - pos),
                              {'t': 'line', 's': f'#include "{sp}"', 'r': ''})
        elif via_sibling:
            sib = {'name': 'sib.asm', 'dir': '', 'idx': 93,
                   'items': [{'t': 'line', 's': '  .byte $21', 'r': '  .byte $21'}, again]}
            m['items'].insert(pos + 1 + rnd.randrange(0, len(m['items']) - pos), {'t': 'inc', 'file': sib})
        else:
            m['items'].insert(pos + 1 + rnd.randrange(0, len(m['items']) - pos), again)
        c['inc_dirs'] = sorted(set(progtree.include_dirs(m)))
        c['kind'] = 'neg-double-inclusion-after-nested' + ({True: '-via-sibling', 'respelled': '-respelled',
                                                            'empty': '-of-a-zero-byte-file'}.get(via_sibling, ''))
        out.append(c)
    if inc_files:
        # the same NAME in a second search directory, this time as a symbolic link to the first file (same inode):
        # still "found in more than one search directory"
        c = clone()
        m = c['tree']
        inc = next(it for it in m['items'] if it['t'] == 'inc')['file']
        other = 'zlnk'
        c['extra_links'] = {f'{other}/{inc["name"]}': progtree.relpath(inc)}
        c['inc_dirs'] = progtree.include_dirs(m) + [other]
        c['kind'] = 'neg-ambiguous-name-symlinked-file'
        out.append(c)
        # ... and as a directory of that name (or a link to one): the name is still found in two search directories
        c = clone()
        m = c['tree']
        inc = next(it for it in m['items'] if it['t'] == 'inc')['file']
        other = 'zdir'
        if rnd.random() < 0.5:
            c['extra_dirs'] = [f'{other}/{inc["name"]}']
        else:
            c['extra_dirs'] = [other, 'zsome/dir']
            c['extra_links'] = {f'{other}/{inc["name"]}': 'zsome/dir'}
        c['inc_dirs'] = progtree.include_dirs(m) + [other]
        c['kind'] = 'neg-ambiguous-name-directory'
        out.append(c)
    # a cycle that re-enters a file protected by an include guard: main -> gb (guarded) -> gc -> gb.  The second
    # inclusion would be empty, but a file included more than once must be rejected all the same
    c = clone()
    m = c['tree']
    gb = {'name': 'gb.asm', 'dir': '', 'idx': 94, 'items': []}
    gc = {'name': 'gc.asm', 'dir': rnd.choice(['', 'inc']), 'idx': 95,
          'items': [{'t': 'line', 's': '  .byte $31', 'r': '  .byte $31'},
                    {'t': 'inc', 'file': {'name': 'gb.asm', 'dir': '', 'idx': 96, 'items': [], 'dup': True}}]}
    gb['items'] = [{'t': 'line', 's': '#ifndef GB_H', 'r': '#ifndef GB_H'},
                   {'t': 'line', 's': '#define GB_H 1', 'r': '#define GB_H 1'},
                   {'t': 'line', 's': '  .byte $32', 'r': '  .byte $32'}, {'t': 'inc', 'file': gc},
                   {'t': 'line', 's': '#endif', 'r': '#endif'}]
    m['items'].insert(rnd.randrange(2, len(m['items']) + 1), {'t': 'inc', 'file': gb})
    c['inc_dirs'] = sorted(set(progtree.include_dirs(m)))
    c['kind'] = 'neg-cycle-through-include-guard'
    out.append(c)
    # missing file, although files whose names only add an extension to the include's name exist
    c = clone()
    ext = (re.search(r'"?extension"?\s*:\s*"?(\w+)', case['isa_text']) or [None, 'asm'])[1]
    c['extra_files'] = {f'defs9.{e}': ['  .byte $55'] for e in {'asm', 's', ext}}
    c['tree']['items'].insert(rnd.randrange(0, len(c['tree']['items']) + 1),
                              {'t': 'line', 's': '#include "defs9"', 'r': ''})
    c['kind'] = 'neg-missing-file-extensionless-name'
    out.append(c)
    # missing file
    c = clone()
    c['tree']['items'].insert(rnd.randrange(0, len(c['tree']['items']) + 1),
                              {'t': 'line', 's': '#include "nofile.asm"', 'r': ''})
    c['kind'] = 'neg-missing-file'
    out.append(c)
    # everything a negative world added (relative to the base tree), plus every include item, is essential: the
    # minimiser may not remove it (otherwise "accepted" would be reported for a program that is simply valid)
    base_ids = set()

    def ids(f, acc):
        for it in f['items']:
            acc.add(json.dumps(it, sort_keys=True) if it['t'] == 'line' else 'inc:' + progtree.relpath(it['file']))
            if it['t'] == 'inc':
                ids(it['file'], acc)
    ids(main, base_ids)
    for c in out:
        n = 0

        def tag(f):
            nonlocal n
            for it in f['items']:
                key = json.dumps(it, sort_keys=True) if it['t'] == 'line' else 'inc:' + progtree.relpath(it['file'])
                if it['t'] == 'inc' or key not in base_ids:
                    it['ess'] = True
                    n += 1
                if it['t'] == 'inc':
                    tag(it['file'])
        tag(c['tree'])
        c['ess_count'] = n
    return out


def count_ess(f):
    n = 0
    for it in f['items']:
        if it.get('ess'):
            n += 1
        if it['t'] == 'inc':
            n += count_ess(it['file'])
    return n


def explore(subseed, cfg):
    rnd = random.Random(subseed)
    out = {'evaluations': 0, 'runs': 0, 'steps': 0, 'probes': {}, 'faults_fired': {}, 'discarded': {},
           'violations': [], 'samples': [], 'distinct': set(), 'harness': [], 'sim_clock_s': 0.0}
    pr = out['probes']
    isa, info = gen.gen_isa(rnd)
    fmt = info['fmt']
    tg = progtree.TreeGen(rnd, info, n_files=rnd.choice([1, 2, 2, 3, 3, 4]))
    main = tg.generate()
    case = {'isa_text': gen.isa_text(isa, fmt), 'isa_name': 'isa.' + fmt, 'tree': main, 'table': list(tg.all_globals), 'ctable': list(tg.cross_consts),
            'kind': 'positive', 'sched': {'set_seed': None}}
    ndirs = len(progtree.include_dirs(main))
    nfiles = len(progtree.all_files(main))

    def account(res, c):
        for key in ('split', 'ref'):
            r = res.get(key)
            if r is None:
                continue
            out['runs'] += 1
            out['steps'] += r['steps']
            if r.get('gaps'):
                out['harness'].append(f'HARNESS-GAP {r["gaps"][:2]}')
            if r['kind'] == 'crash':
                out['harness'].append(f'child crash {r.get("exc")}')
            if r['kind'] == 'wall_timeout':
                out['harness'].append('HARNESS-TIMEOUT')
            for f in r.get('fired', []):
                out['faults_fired'][f['kind']] = out['faults_fired'].get(f['kind'], 0) + 1
        out['evaluations'] += 1
        for vv in res['violations']:
            out['violations'].append({'case': c, 'class': vv, 'group': c.get('kind', 'positive')})
        sh = (nfiles, tuple(sorted(progtree.relpath(f) for f in progtree.all_files(c['tree']))),
              tuple(c.get('sched', {}).get('spell', [])), tuple(c.get('sched', {}).get('order', []) or []),
              c.get('kind'))
        if nfiles > 1:
            out['distinct'].add(H(sh) & 0xFFFFFFFFFFFF)

    base = check_case(case)
    account(base, case)
    if base.get('discard'):
        out['discarded'][f'reference fails: {(base["ref"].get("exc") or base["ref"].get("stderr") or "")[:50]}'] = 1
        return _fin(out)
    ref_result = base['ref']
    # probes on the tree
    if progtree.depth(main) >= 3:
        pr['nesting_depth_3'] = pr.get('nesting_depth_3', 0) + 1
    if any(it.get('zone', 'GLOBAL') != 'GLOBAL' for f in progtree.all_files(main) for it in f['items']
           if it['t'] == 'inc'):
        pr['includer_in_non_global_zone'] = pr.get('includer_in_non_global_zone', 0) + 1
    if nfiles > 1:
        pr['programs_with_includes'] = pr.get('programs_with_includes', 0) + 1
    # positive world under several schedules
    for _ in range(cfg.get('schedules', 2)):
        c = copy.deepcopy(case)
        c['sched'] = gen_sched(rnd, ndirs)
        if 'alias' in c['sched'].get('spell', []):
            pr['alias_directory'] = pr.get('alias_directory', 0) + 1
        if c['sched'].get('dups'):
            pr['duplicate_dir_supplied'] = pr.get('duplicate_dir_supplied', 0) + 1
        account(check_case(c, ref_result=ref_result), c)
    # negative worlds, each under the identity schedule and one random schedule
    for c in negatives(case, rnd, tg):
        for trivial in (True, False):
            c2 = copy.deepcopy(c)
            nd = len(c2.get('inc_dirs', [])) or ndirs
            c2['sched'] = gen_sched(rnd, nd, trivial=trivial)
            # alias spelling would make the extra ambiguous directory a different story; keep plain there
            if c2['kind'] in ('neg-ambiguous-name', 'neg-ambiguous-name-symlinked-file'):
                c2['sched']['spell'] = ['plain'] * nd
                c2['sched']['dups'] = []
            account(check_case(c2), c2)
            pr[c2['kind']] = pr.get(c2['kind'], 0) + 1
    # cross-process tier: negative worlds repeated in real interpreters (real hash seeds, python -O / -OO)
    if (subseed & 0xFFFFFFFF) % cfg.get('xproc_every', 8) == 0:
        negs = negatives(case, random.Random(subseed ^ 0xA5A5), tg)
        for i, c in enumerate(rnd.sample(negs, min(4, len(negs)))):
            c = copy.deepcopy(c)
            c['sched'] = {'set_seed': None}
            c['xproc'] = {'pyopt': [1, 2, 0][i % 3], 'hashseed': rnd.randrange(0, 4000)}
            try:
                res = check_case(c)
            except Exception as e:
                out['harness'].append(f'xproc: {type(e).__name__}: {e}')
                continue
            out['runs'] += 1
            out['evaluations'] += 1
            pr['xproc_runs'] = pr.get('xproc_runs', 0) + 1
            for vv in res['violations']:
                out['violations'].append({'case': c, 'class': vv, 'group': 'xproc:' + c['kind']})
    # faults on the include files of the positive world
    if nfiles > 1:
        rs = base['split']
        present = set(build_worlds(case)[0]['files'])
        # only events on files that exist: a failing probe of a directory that does not hold the file changes nothing
        targets = [(i, op, p) for (i, op, p, d) in rs['events']
                   if p.endswith('.asm') and not p.endswith('/main.asm') and op in ('open', 'stat') and p in present]
        for (i, op, p) in targets[:4]:
            kinds = ['open_eacces', 'open_eio', 'read_eio_after'] if op == 'open' else ['stat_eacces', 'vanish_after_stat']
            for k in kinds:
                c = copy.deepcopy(case)
                c['faults'] = [{'at': i, 'kind': k, 'k': 0}]
                c['kind'] = f'fault-{k}'
                account(check_case(c), c)
    if not out['samples']:
        sp, _ = build_worlds(case)
        out['samples'].append({'subseed': subseed, 'argv': sp['argv'],
                               'files': {k: v.split('\n')[:8] for k, v in sp['files'].items() if k.endswith('.asm')}})
    return _fin(out)


def _fin(out):
    out['distinct'] = sorted(out['distinct'])
    return out
