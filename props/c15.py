"""C15 - Assembly is deterministic.

For a generated world W the reference run R0 (identity set order, cwd = project dir, minimal env, epoch E0, utf-8,
no pre-existing output) is compared with variant runs that change, singly and in combination: SimSet iteration
policies, order/duplication/spelling of -I directories, cwd (absolute paths) or cwd+project location (relative
paths), unrelated environment variables / HOME / default text and stdout encodings, the simulated epoch, a
pre-existing output file; and, in the cross-process tier, the real PYTHONHASHSEED of fresh interpreters running the
same world materialised on the real file system (which also cross-validates SimFS).
"""
import copy
import os
import random
import re
import shutil
import subprocess

from sim.runner import H
from sim import child, gen, progtree

ID = 'C15'
LEVEL = 'exploration'
TIERS = {
    'quick': {'subseeds': 400, 'variants': 10, 'xproc_every': 4, 'hashseeds': 4, 'wall_budget': 240, 'min_runs': 200},
    'thorough': {'subseeds': 4000, 'variants': 16, 'xproc_every': 6, 'hashseeds': 8, 'wall_budget': 3000,
                 'min_runs': 400},
}
RULE = ('one case = one generated multi-file world x one variant (schedule/environment perturbation) compared with its '
        'reference run; in-simulator variants perturb SimSet policies, -I order/spelling/duplicates/aliases, cwd and '
        'project location, env vars, encodings, epoch, pre-existing output; cross-process cases run the real CLI in '
        'fresh interpreters under different PYTHONHASHSEED on a materialised copy; non-trivial = the variant differs '
        'from the reference in at least one perturbed dimension AND (for set policies) a set with >= 2 elements was '
        'iterated in non-identity order or another dimension changed; distinct = distinct (world digest, variant) pairs')
ASSUMPTIONS = [
    '"run" = one process per assembly (a second assembly inside one interpreter is outside the property and only observed)',
    'BESPOKEASM_* environment variables are a documented input channel (click auto_envvar_prefix) and are never perturbed',
    'strings that echo an input path (File: headers of the listing, the "Writing N bytes ... to <path>" line) are compared after mapping the project root back; stderr is compared by failure/success only',
    'in-process set-order control reaches set(...) calls and module-level set constants; set literals/comprehensions inside functions are covered only by the real-hash-seed tier',
]
COMPONENTS = {'real': ['bespokeasm (whole package)', 'click', 'yaml', 'json', 'intelhex',
                       'cross-process tier: real CPython interpreters, real file system under /dev/shm'],
              'stub': ['file system (SimFS)', 'cwd/env/encodings', 'clock', 'stdout', 'set iteration order (SimSet)',
                       'process boundary (fork) in the in-simulator tier']}

ROOT0 = '/sim/proj'
ENV_POOL = {
    'USER': ['alice', 'root'], 'LOGNAME': ['alice'], 'LANG': ['C', 'de_DE.UTF-8', 'tr_TR.ISO-8859-9'],
    'LC_ALL': ['C', 'en_US.UTF-8'], 'TZ': ['UTC', 'Asia/Tokyo', 'America/New_York'], 'TERM': ['dumb', 'xterm-256color'],
    'COLUMNS': ['20', '40', '100', '400'], 'LINES': ['3', '50'], 'TMPDIR': ['/sim/t2'], 'SHELL': ['/bin/zsh'], 'PATH': ['/x:/y', ''],
    'NO_COLOR': ['1'], 'SOURCE_DATE_EPOCH': ['0', '1234567890'], 'EDITOR': ['vi'], 'PYTHONIOENCODING': ['latin-1'],
    'FILL': ['255'], 'DEBUG': ['1'], 'VERBOSE': ['3'], 'CI': ['true'], 'HOSTNAME': ['h1'], 'XDG_CONFIG_HOME': ['/sim/xdg'],
    'FORCE_COLOR': ['1'], 'CLICOLOR_FORCE': ['1'], 'LC_NUMERIC': ['de_DE.UTF-8'],
}
OLD = 'STALE-OUTPUT-' * 300


def world_for(case, variant):
    v = variant or {}
    root = v.get('root', ROOT0)
    mode = v.get('paths', 'rel')
    cwd = root if mode == 'rel' else v.get('cwd', '/sim/elsewhere')

    def P(x):
        return x if mode == 'rel' else f'{root}/{x}'
    main = case['tree']
    table = ['  .2byte ' + g for g in case.get('table', [])] + ['  .byte ' + k for k in case.get('ctable', [])] + [
        gen.SENTINEL]
    files = {f'{root}/{case["isa_name"]}': case['isa_text']}
    for rel, lines in progtree.split_files(main).items():
        text = list(lines) + (table if rel == 'main.asm' else [])
        files[f'{root}/{rel}'] = '\n'.join(text) + '\n'
    for rel, lines in case.get('extra_files', {}).items():
        files[f'{root}/{rel}'] = '\n'.join(lines) + '\n'
    dirs = list(case.get('inc_dirs', progtree.include_dirs(main)))
    if any(it['t'] == 'line' and 'twice9.asm' in it['s'] for it in main['items']):
        files[f'{root}/twice9.asm'] = '  .byte $71\n'
        files[f'{root}/tw2/twice9.asm'] = '  .byte $72\n'
        if 'tw2' not in dirs:
            dirs.append('tw2')
    order = v.get('order')
    if order:
        dirs = [dirs[i] for i in order if i < len(dirs)]
    links = {}
    argv_dirs = []
    spells = v.get('spell', [])
    for i, d in enumerate(dirs):
        how = spells[i] if i < len(spells) else 'plain'
        if how == 'alias':
            a = 'alias_' + d.replace('/', '_')
            links[f'{root}/{a}'] = f'{root}/{d}'
            argv_dirs.append(P(a))
        elif how == 'dot' and mode == 'rel':
            argv_dirs.append('./' + d)
        elif how == 'tilde' and mode == 'rel':
            # a directory literally named '~' under the working directory (here: a link back to it); no shell is
            # involved, so the tool sees the '~' itself - and what it means must not depend on $HOME
            links[f'{root}/~'] = root
            argv_dirs.append('~/' + d)
        elif how == 'slash':
            argv_dirs.append(P(d) + '/')
        elif how == 'abs':
            argv_dirs.append(f'{root}/{d}')
        else:
            argv_dirs.append(P(d))
    for i in v.get('dups', []):
        if i < len(dirs):
            argv_dirs.append(f'{root}/{dirs[i]}')
    cfg_path = P(case['isa_name'])
    if v.get('tilde_config') and mode == 'rel':
        links[f'{root}/~'] = root
        cfg_path = '~/' + case['isa_name']
    argv = ['bespokeasm', 'compile', '-c', cfg_path, P('main.asm'), '-o', P('out.bin')] + list(
        case.get('opts', []))
    if case.get('fmt'):
        argv += ['-p', '-t', case['fmt']]
        if case.get('sink') == 'file':
            argv += ['--pretty-print-output', P('list.txt')]
    for d in argv_dirs:
        argv += ['-I', d]
    if v.get('pre_image'):
        # a stale file at the output path: much longer than the new output, or exactly as long (e.g. an earlier build
        # with another fill byte); in the simulated file system it is as new as the sources
        files[f'{root}/out.bin'] = v['pre_image'] if isinstance(v['pre_image'], str) else OLD
        if case.get('sink') == 'file':
            files[f'{root}/list.txt'] = v.get('pre_list', OLD)
    na = case.get('nonascii')
    if na:
        # text outside ASCII (stored as UTF-8, like every editor does today): in comments of every source file, in a
        # string that becomes bytes, in a comment of the ISA file. What the locale is must not matter for any of it
        if na in ('comment', 'both'):
            for pth in list(files):
                if pth.endswith('.asm'):
                    files[pth] += '; Gr\u00f6\u00dfe \u00b5 caf\u00e9\n'
        if na in ('string', 'both'):
            mp = f'{root}/main.asm'
            files[mp] = files[mp].replace(gen.SENTINEL, '  .cstr "caf\u00e9 \u00b5"\n' + gen.SENTINEL)
        if na == 'isa' and case['isa_name'].endswith('yaml'):
            ip = f'{root}/{case["isa_name"]}'
            files[ip] = '# Gr\u00f6\u00dfe: 8 bit\n' + files[ip]
        files = {pth: (t.encode('utf-8').decode('latin-1') if pth.endswith(('.asm', '.yaml', '.json')) else t)
                 for pth, t in files.items()}
    env = {'HOME': v.get('home', '/sim/home'), 'PWD': cwd}
    env.update(v.get('env', {}))
    modes = {}
    if v.get('unreadable_extra'):
        # credentials: a copy of an include file that this user cannot read (it still EXISTS in a searched directory)
        for rel in case.get('never_read', []):
            modes[f'{root}/{rel}'] = 0o000
    w = {'files': files, 'links': links, 'argv': argv, 'cwd': cwd, 'env': env, 'faults': list(v.get('faults', [])),
         'modes': modes, 'uid': v.get('uid', 1000),
         'encoding': v.get('encoding', 'utf-8'), 'stdout_encoding': v.get('stdout_encoding', 'utf-8'),
         'epoch': v.get('epoch', 1.7e9), 'set_seed': v.get('set_seed'), 'list_seed': v.get('list_seed'),
         'mtimes': {p: v['mtime_of'](i) for i, p in enumerate(sorted(files))} if callable(v.get('mtime_of')) else (
             {p: 1.0e9 + (v['mtime_skew'] * (i + 1)) % 9.0e8 for i, p in enumerate(sorted(files))}
             if v.get('mtime_skew') else {}),
         'dirs': [f'{root}/{d}' for d in dirs] + [cwd], 'step_budget': 4_000_000}
    return w, root


def outputs(r, root, case, stdout_encoding='utf-8'):
    def norm(t):
        return None if t is None else t.replace(root + '/', '').replace(root, '.')
    if stdout_encoding not in ('ascii', 'latin-1') and r.get('stdout'):
        # the console's encoding changes the BYTES on stdout, not the text: compare text
        r = dict(r, stdout=r['stdout'].encode('latin-1').decode(stdout_encoding, 'replace').lstrip('\ufeff'))
    out = {'failed': r['kind'] == 'exception' or (r['kind'] == 'exit' and r['exit'] != 0), 'kind': r['kind'],
           'exit': r['exit'], 'image': r['files'].get(f'{root}/out.bin'), 'stdout': norm(r.get('stdout', ''))}
    if case.get('sink') == 'file':
        out['pretty_file'] = norm(r['files'].get(f'{root}/list.txt'))
    if out['failed']:
        out['stdout'] = None       # partial diagnostics before a failure are not one of the compared outputs
    return out


def compare(o0, o1, case):
    v = []
    if o0['kind'] in ('wall_timeout', 'crash') or o1['kind'] in ('wall_timeout', 'crash'):
        return v
    if o0['kind'] == 'step_budget' or o1['kind'] == 'step_budget':
        if o0['kind'] != o1['kind']:
            v.append('D-termination-differs')
        return v
    if o0['failed'] != o1['failed'] or (not o0['failed'] and o0['exit'] != o1['exit']):
        v.append('D-exit-status-differs')
        return v
    if o0['failed']:
        return v
    if o0['image'] != o1['image']:
        v.append('D-image-differs')
    if o0['stdout'] != o1['stdout']:
        v.append(f'D-stdout-differs-{case.get("fmt")}')
    if case.get('sink') == 'file' and o0.get('pretty_file') != o1.get('pretty_file'):
        v.append(f'D-pretty-file-differs-{case.get("fmt")}')
    return v


def isa_same_length_edit(text, k):
    """another ISA of exactly the same length: one single-digit `value` changed (opcode / field value)"""
    ms = list(re.finditer(r'(\bvalue"?: )(\d)(?!\d)', text))
    if not ms:
        return None
    m = ms[k % len(ms)]
    return text[:m.start(2)] + str(int(m.group(2)) ^ 1) + text[m.end(2):]


def run_variant(case, variant):
    w, root = world_for(case, variant)
    prior = (variant or {}).get('prior')
    if prior:
        # a two-run history on one file system: an earlier run for another ISA text of the same length (and, in the
        # simulated file system, the same timestamps) at the same path; whatever it leaves behind - outputs, temp
        # files, caches - is what the compared run starts from
        other = isa_same_length_edit(case['isa_text'], prior.get('k', 0))
        if other is not None:
            w1, _ = world_for(dict(case, isa_text=other), {k: x for k, x in variant.items() if k != 'prior'})
            r1 = child.run_world(w1)
            if r1['kind'] in ('exit', 'exception'):
                keep = {pth: t for pth, t in r1.get('files', {}).items() if pth not in w['files']}
                w['files'] = dict(keep, **w['files'])
                w['dirs'] = sorted(set(w.get('dirs', [])) | set(r1.get('dirs', [])))
    r = child.run_world(w)
    return r, outputs(r, root, case, (variant or {}).get('stdout_encoding', 'utf-8'))


# ---- cross-process tier ----------------------------------------------------------------------------
def xproc_run(case, hashseeds, tag):
    """Materialise the reference world on the real FS and run the real CLI under each hash seed."""
    base = f'/dev/shm/verif_c15_{os.getpid()}_{tag}'
    if not os.path.isdir('/dev/shm'):
        base = os.path.join(os.environ.get('TMPDIR', '/tmp'), os.path.basename(base))
    root = base + '/proj'
    w, simroot = world_for(case, {})
    res = []
    try:
        for p, content in w['files'].items():
            rp = root + p[len(simroot):]
            os.makedirs(os.path.dirname(rp), exist_ok=True)
            with open(rp, 'wb') as f:
                f.write(content.encode('latin-1'))
        for d in w['dirs']:
            if d.startswith(simroot):
                os.makedirs(root + d[len(simroot):], exist_ok=True)
        repo_src = child.REPO_SRC
        py = '/venv/bin/python' if os.path.exists('/venv/bin/python') else 'python3'
        for hs in hashseeds:
            for f in ('out.bin', 'list.txt'):
                try:
                    os.remove(f'{root}/{f}')
                except FileNotFoundError:
                    pass
            env = {'PYTHONHASHSEED': str(hs), 'PYTHONPATH': repo_src, 'PYTHONDONTWRITEBYTECODE': '1',
                   'HOME': base + '/home', 'PATH': '/usr/bin:/bin', 'LANG': 'C.UTF-8', 'PYTHONUTF8': '1',
                   'TMPDIR': base + '/tmp'}
            os.makedirs(base + '/tmp', exist_ok=True)
            if hs % 3 == 1:
                env['PYTHONOPTIMIZE'] = str(1 + hs % 2)         # python -O / -OO
            if hs % 4 == 2:
                env.update({'LANG': 'C', 'PYTHONUTF8': '0', 'COLUMNS': '30'})
                if case.get('nonascii'):
                    # ASCII locale for everything the tool opens, but a pipe that can carry the listing (the
                    # ASCII-console case is the open finding C15-ascii-console-cannot-print-listing, in-simulator tier)
                    env['PYTHONIOENCODING'] = 'utf-8'
            try:
                cp = subprocess.run([py, '-m', 'bespokeasm'] + w['argv'][1:], cwd=root, env=env,
                                    capture_output=True, timeout=60)
                rc, so = cp.returncode, cp.stdout.decode('latin-1')
                kind = 'exit'
            except subprocess.TimeoutExpired:
                rc, so, kind = None, '', 'wall_timeout'
            files = {}
            for f in ('out.bin', 'list.txt'):
                try:
                    with open(f'{root}/{f}', 'rb') as fh:
                        files[f'{root}/{f}'] = fh.read().decode('latin-1')
                except FileNotFoundError:
                    pass
            r = {'kind': kind, 'exit': rc, 'stdout': so, 'files': files}
            res.append((hs, outputs(r, root, case)))
    finally:
        shutil.rmtree(base, ignore_errors=True)
    return res


def check_case(case):
    """case['variant'] is an in-simulator variant, or {'xproc': [hashseeds]} for the cross-process tier."""
    variant = case.get('variant', {})
    r0, o0 = run_variant(case, {})
    obs = {'ref': {'kind': o0['kind'], 'exit': o0['exit'], 'failed': o0['failed'], 'exc': (r0.get('exc') or '')[:120]},
           'gaps': r0.get('gaps', [])}
    v = []
    if 'xproc' in variant:
        res = xproc_run(case, variant['xproc'], tag=str(abs(H(case['isa_text'])) % 100000))
        obs['xproc'] = [(hs, o['exit'], o['failed']) for hs, o in res]
        for hs, o in res:
            for c in compare(res[0][1], o, case):
                v.append(c.replace('D-', 'DX-hashseed-'))
            for c in compare(o0, o, case):
                v.append(c.replace('D-', 'DX-simfs-vs-real-'))
        v = sorted(set(v))
        return {'violations': v, 'observed': obs, 'r0': r0}
    r1, o1 = run_variant(case, variant)
    obs['var'] = {'kind': o1['kind'], 'exit': o1['exit'], 'failed': o1['failed'], 'exc': (r1.get('exc') or '')[:120]}
    obs['gaps'] += r1.get('gaps', [])
    v = compare(o0, o1, case)
    if variant.get('faults') and o1['failed']:
        # a run that hit an injected I/O fault and said so is not one of the compared runs (how it fails is C14's
        # business); one that hit the fault and still reports success must have produced the same outputs
        v = []
    if v and o0['image'] is not None and o1['image'] is not None and o0['image'] != o1['image']:
        a, b = o0['image'], o1['image']
        obs['image_first_diff'] = next((i for i in range(min(len(a), len(b))) if a[i] != b[i]), min(len(a), len(b)))
        obs['image_sizes'] = [len(a), len(b)]
    return {'violations': v, 'observed': obs, 'r0': r0, 'r1': r1}


def attributable(case, vclass, finding):
    """Open finding C15-ascii-console-cannot-print-listing: a violation belongs to it only if it is the exit status
    that differs, the variant run died of UnicodeEncodeError on an ASCII console, and giving that same variant a
    console that can represent the text makes every difference disappear."""
    if finding['id'] != 'C15-ascii-console-cannot-print-listing':
        return False
    v = case.get('variant', {})
    if vclass != 'D-exit-status-differs' or not case.get('nonascii') or v.get('stdout_encoding') != 'ascii':
        return False
    res = check_case(case)
    if vclass not in res['violations'] or 'UnicodeEncodeError' not in res['observed'].get('var', {}).get('exc', ''):
        return False
    c2 = copy.deepcopy(case)
    c2['variant']['stdout_encoding'] = 'utf-8'
    return not check_case(c2)['violations']


def shrink_paths(case):
    paths = []

    def walk(f, prefix):
        paths.append(prefix + ('items',))
        for i, it in enumerate(f['items']):
            if it['t'] == 'inc':
                walk(it['file'], prefix + ('items', i, 'file'))
    walk(case['tree'], ('tree',))
    paths.sort(key=lambda p: -len(p))
    return paths + [('table',)]


def simplify(case):
    """try dropping single dimensions of the variant"""
    v = case.get('variant', {})
    for k in list(v):
        if k == 'xproc':
            continue
        c = copy.deepcopy(case)
        del c['variant'][k]
        yield c
    for k in list(v.get('env', {})):
        c = copy.deepcopy(case)
        del c['variant']['env'][k]
        yield c
    if case.get('nonascii'):
        for alt in ('comment', 'string', 'isa', None):
            if alt != case['nonascii']:
                c = copy.deepcopy(case)
                c['nonascii'] = alt
                yield c


# -----------------------------------------------------------------------------------------------
def gen_variant(rnd, ndirs, single=None):
    dims = ['set', 'inc', 'cwd', 'env', 'enc', 'epoch', 'pre']
    chosen = [single] if single else rnd.sample(dims, rnd.randrange(2, 5))
    v = {}
    if 'set' in chosen:
        v['set_seed'] = rnd.randrange(1, 1 << 30)
        v['list_seed'] = rnd.randrange(1, 1 << 30)
    if 'inc' in chosen and ndirs:
        order = list(range(ndirs))
        rnd.shuffle(order)
        v['order'] = order
        v['spell'] = [rnd.choice(['plain', 'dot', 'slash', 'abs', 'alias', 'tilde']) for _ in range(ndirs)]
        if rnd.random() < 0.4:
            v['dups'] = [rnd.randrange(ndirs)]
    if 'cwd' in chosen:
        if rnd.random() < 0.5:
            v['paths'] = 'abs'
            v['cwd'] = rnd.choice(['/sim/elsewhere', '/sim', '/sim/a/b/c'])
        else:
            v['paths'] = 'rel'
            v['root'] = rnd.choice(['/sim/other/place', '/sim/w', '/sim/proj2/x y'])
    if 'env' in chosen:
        names = rnd.sample(sorted(ENV_POOL), rnd.randrange(1, 6))
        v['env'] = {n: rnd.choice(ENV_POOL[n]) for n in names}
        v['home'] = rnd.choice(['/sim/home2', '/nonexistent', '/sim/proj'])
        v['tilde_config'] = rnd.random() < 0.4
    if 'enc' in chosen:
        v['encoding'] = rnd.choice(['ascii', 'latin-1', 'utf-8', 'cp1252'])
        v['stdout_encoding'] = rnd.choice(['ascii', 'latin-1', 'utf-8', 'utf-16', 'utf-16'])
    if 'epoch' in chosen:
        v['epoch'] = rnd.choice([0.0, 3.0e8, 9.9e8, 1.9e9, 4.4e9, 315532800.0 - 86400 * 400])
        v['mtime_skew'] = rnd.choice([0, 7.7e7, 1.23e8])      # different (and differently ordered) file timestamps
    if 'pre' in chosen:
        v['pre_image'] = True
    if 'env' in chosen or 'cwd' in chosen:
        v['uid'] = rnd.choice([0, 1000, 1000, 501])
        v['unreadable_extra'] = rnd.random() < 0.6
    return v


def explore(subseed, cfg):
    rnd = random.Random(subseed)
    out = {'evaluations': 0, 'runs': 0, 'steps': 0, 'probes': {}, 'faults_fired': {}, 'discarded': {},
           'violations': [], 'samples': [], 'distinct': set(), 'harness': [], 'sim_clock_s': 0.0}
    pr = out['probes']
    isa, info = gen.gen_isa(rnd)
    fmt = info['fmt']
    tg = progtree.TreeGen(rnd, info, n_files=rnd.choice([1, 2, 3, 3, 4]))
    main = tg.generate()
    case = {'isa_text': gen.isa_text(isa, fmt), 'isa_name': 'isa.' + fmt, 'tree': main, 'table': list(tg.all_globals), 'ctable': list(tg.cross_consts),
            'fmt': rnd.choice(['listing', 'hex', 'intel_hex', 'minhex', 'listing']), 'sink': rnd.choice(['stdout', 'file']),
            'opts': []}
    if rnd.random() < 0.2 and info['addr_bits'] >= 12:
        case['opts'] = ['-e', str(info['origin'] + rnd.choice([255, 1023])), '-f', str(rnd.randrange(256))]
    elif rnd.random() < 0.12:
        # an image window that contains nothing: an empty image is written - also over a stale file
        case['opts'] = rnd.choice([['-s', '3000'], ['-s', '8', '-e', '4'], ['-s', '65535'], ['-s', '70000']])
        pr['empty_image_window'] = 1
    if rnd.random() < 0.25:
        # command-line symbols: a legal set, or the same name twice (rejected - in every run, whatever the order)
        dopts = rnd.choice([['-D', 'LVL=1'], ['-D', 'LVL=1', '-D', 'DBG2'], ['-D', 'LVL=1', '-D', 'LVL=2'],
                            ['-D', 'LVL', '-D', 'LVL=3', '-D', 'OTHER=1'], ['-D', 'LVL=2', '-D', 'LVL=2']])
        case['opts'] = case['opts'] + dopts
        main['items'][2:2] = [{'t': 'line', 's': x, 'r': x} for x in (
            '#ifdef LVL', '  .byte LVL', '#else', '  .byte $4C', '#endif')]
        pr['cli_symbols'] = 1
    if rnd.random() < 0.3:
        case['nonascii'] = rnd.choice(['comment', 'string', 'both', 'both', 'isa'])
        pr['non_ascii_text_in_inputs'] = 1
    ambiguous = False
    files = progtree.all_files(main)
    if len(files) > 1 and rnd.random() < 0.2:
        inc = files[1]
        other = 'zdup' if inc['dir'] != 'zdup' else 'zdup2'
        orig_lines = progtree.split_files(main)[progtree.relpath(inc)]
        mode = rnd.randrange(3)
        if mode == 0:
            dup = ['  .byte $77', '  .byte $78']
        elif mode == 1:
            dup = list(orig_lines)                       # identical copy in a second search directory
            pr['ambiguous_identical_copy'] = 1
        else:
            # same size (and, in the simulated file system, same mtime) but different content
            dup = list(orig_lines)
            for i, ln in enumerate(dup):
                m = __import__('re').search(r'\d', ln)
                if m and not ln.lstrip().startswith('#'):
                    d = ln[m.start()]
                    dup[i] = ln[:m.start()] + ('7' if d != '7' else '3') + ln[m.start() + 1:]
                    break
            pr['ambiguous_same_size_copy'] = 1
        case['extra_files'] = {f'{other}/{inc["name"]}': dup}
        case['never_read'] = [f'{other}/{inc["name"]}']       # the ambiguity is reported before either copy is opened
        case['inc_dirs'] = progtree.include_dirs(main) + [other]
        ambiguous = True
        pr['ambiguous_include_present'] = 1
    if len(files) > 1 and not ambiguous and rnd.random() < 0.12:
        # an include whose exact spelling exists nowhere, next to two differently-cased files with different content
        # (rejected - in every run, however the directory happens to be listed)
        inc = files[1]
        d = (inc['dir'] + '/') if inc['dir'] else ''
        base_name = inc['name']
        case['extra_files'] = dict(case.get('extra_files', {}))
        case['extra_files'][d + base_name.capitalize()] = ['  .byte $71']
        case['extra_files'][d + base_name.replace('.asm', '.ASM')] = ['  .byte $72, $73']
        main['items'].insert(2, {'t': 'line', 's': f'#include "{base_name.upper()}"', 'r': ''})
        pr['include_with_case_variants_only'] = 1
    ndirs = len(case.get('inc_dirs', progtree.include_dirs(main)))
    wdig = H((case['isa_text'], str(progtree.split_files(main)))) & 0xFFFFFFFF

    r0, o0 = run_variant(case, {})
    out['runs'] += 1
    out['steps'] += r0['steps']
    if r0['kind'] in ('crash', 'wall_timeout') or r0.get('gaps'):
        out['harness'].append(f'reference run: {r0["kind"]} {r0.get("gaps")}')
        return _fin(out)
    if o0['failed']:
        # a world whose reference run is rejected is still explored: it must be rejected in every other run too
        pr['reference_run_rejected'] = 1

    def do(variant, group):
        c = copy.deepcopy(case)
        c['variant'] = variant
        r1, o1 = run_variant(case, variant)
        out['runs'] += 1
        out['evaluations'] += 1
        out['steps'] += r1['steps']
        if r1['kind'] in ('crash', 'wall_timeout') or r1.get('gaps'):
            out['harness'].append(f'variant run: {r1["kind"]} {r1.get("gaps")}')
            return
        vs = compare(o0, o1, case)
        if variant.get('faults') and o1['failed']:
            vs = []             # same rule as in check_case
        for vv in vs:
            out['violations'].append({'case': c, 'class': vv, 'group': group})
        nontrivial_sets = [s for s in r1.get('set_log', []) if s[2] != 'identity']
        if nontrivial_sets:
            pr['nonidentity_set_iterations'] = pr.get('nonidentity_set_iterations', 0) + len(nontrivial_sets)
            if any(s[1] >= 3 for s in nontrivial_sets):
                pr['set_ge3_iterated_non_identity'] = pr.get('set_ge3_iterated_non_identity', 0) + 1
            for s in nontrivial_sets:
                out['sites'].add(s[0])
        if 'alias' in variant.get('spell', []):
            pr['alias_directory'] = pr.get('alias_directory', 0) + 1
        if variant.get('dups'):
            pr['duplicate_dir_supplied'] = pr.get('duplicate_dir_supplied', 0) + 1
        if len(variant) > 1 or 'set_seed' not in variant or nontrivial_sets:
            out['distinct'].add(H((wdig, str(sorted(variant.items(), key=str)))) & 0xFFFFFFFFFFFF)
    out['sites'] = set()
    for dim in ['set', 'inc', 'cwd', 'env', 'enc', 'epoch', 'pre']:
        if dim == 'inc' and not ndirs:
            continue
        do(gen_variant(rnd, ndirs, single=dim), 'single:' + dim)
    if o0['image']:
        # stale output of exactly the size of the new image, different content
        stale = ''.join(chr(ord(ch) ^ 0x5A) for ch in o0['image'])
        v = {'pre_image': stale}
        if case.get('sink') == 'file' and o0.get('pretty_file'):
            v['pre_list'] = ''.join(ch.swapcase() if ch.isascii() else ch for ch in o0['pretty_file'])[::-1]
        do(v, 'single:pre-same-size')
        pr['stale_output_same_size'] = pr.get('stale_output_same_size', 0) + 1
    if not o0['failed']:
        # "in every run": also in one whose output device accepts only part of a write (quota, full disk, size limit)
        wopens = [(e[0], e[2]) for e in r0['events'] if e[1] == 'open' and any(ch in (e[3] or '') for ch in 'wax+')]
        for idx, pth in wopens[:2]:
            size = len(r0['files'].get(pth, ''))
            if size > 1:
                kk = rnd.choice([1, size // 2, size - 1])
                do({'faults': [{'at': idx, 'kind': rnd.choice(['write_short_after', 'write_enospc_after']), 'k': kk}]},
                   'fault')
                pr['runs_with_short_or_failed_write'] = pr.get('runs_with_short_or_failed_write', 0) + 1
    do({'prior': {'k': rnd.randrange(0, 50)}}, 'history')
    pr['two_run_histories'] = pr.get('two_run_histories', 0) + 1
    for _ in range(cfg.get('variants', 10) - 6):
        do(gen_variant(rnd, ndirs), 'combo')
    # cross-process tier on a subset of worlds
    if (subseed & 0xFFFFFFFF) % cfg.get('xproc_every', 4) == 0:
        hs = [0] + rnd.sample(range(1, 5000), cfg.get('hashseeds', 4) - 1)
        c = copy.deepcopy(case)
        c['variant'] = {'xproc': hs}
        try:
            res = check_case(c)
            out['runs'] += len(hs)
            out['evaluations'] += 1
            pr['xproc_worlds'] = pr.get('xproc_worlds', 0) + 1
            pr['xproc_runs'] = pr.get('xproc_runs', 0) + len(hs)
            out['distinct'].add(H((wdig, 'xproc', tuple(hs))) & 0xFFFFFFFFFFFF)
            for vv in res['violations']:
                out['violations'].append({'case': c, 'class': vv, 'group': 'xproc'})
        except Exception as e:
            out['harness'].append(f'xproc: {type(e).__name__}: {e}')
    if not out['samples']:
        w, _ = world_for(case, {})
        out['samples'].append({'subseed': subseed, 'argv': w['argv'], 'example_variant': gen_variant(random.Random(1), ndirs),
                               'files': {k: v.split('\n')[:6] for k, v in w['files'].items() if k.endswith('.asm')}})
    out['probes']['distinct_set_sites'] = 0
    out['set_sites'] = sorted(out.pop('sites'))
    return _fin(out)


def aggregate(results):
    from sim import runner
    agg = runner.default_aggregate(results)
    sites = set()
    for r in results:
        sites.update(r.get('set_sites', []))
    agg['set_creation_sites_iterated_non_identity'] = sorted(sites)
    agg['probes']['distinct_set_sites'] = len(sites)
    return agg


def _fin(out):
    out['distinct'] = sorted(out['distinct'])
    if 'sites' in out:
        out['set_sites'] = sorted(out.pop('sites'))
    return out
