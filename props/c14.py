"""C14 - Assembly always terminates and fails closed.

Workload: per sub-seed one generated (ISA, program, options) base world; then
  (1) exhaustive single-fault enumeration over every SimFS event of the baseline run,
  (2) zero-length directives inserted at every line position,
  (3) targeted semantic corruptions E1-E4 whose verdict ("must be rejected") is known,
  (4) sampled textual corruptions and sampled pairs of I/O faults (verdict-free: only T / FC1 / FC2).
Oracle: see evaluate().
"""
import copy
import random
import re

from sim.runner import H
from sim import child, gen

ID = 'C14'
LEVEL = 'fault_enumeration'
TIERS = {
    'quick': {'subseeds': 96, 'corruptions': 10, 'pairs': 4, 'xproc_every': 6, 'xproc_cases': 5, 'wall_budget': 200, 'min_runs': 250},
    'thorough': {'subseeds': 1500, 'corruptions': 30, 'pairs': 10, 'xproc_every': 4, 'xproc_cases': 8, 'wall_budget': 3000, 'min_runs': 400},
}
RULE = ('one case = one simulated CLI run of a generated (ISA, program, options) world with one fault plan / '
        'corruption; generation: seeded ISA+program generator, then exhaustive single I/O-fault enumeration over '
        'every file-system event of the baseline, zero-length directives at every line, E1-E4 semantic corruptions, '
        'sampled textual corruptions and fault pairs; a case is non-trivial when a fault actually fired or the source '
        'differs from the baseline; distinct = distinct (exit-kind, FS event sequence, fired faults) digests')
ASSUMPTIONS = [
    'one CLI invocation = one process (modelled by one forked child with pristine interpreter state)',
    'SimFS models open/stat/listdir/mkdir and data faults at the Python I/O seam; real-kernel behaviours below that seam are not modelled',
    'time spent inside C code (the re engine) is invisible to the step clock; exploration keeps identifiers <= 8 characters so no verdict depends on wall time (two exceptions, both decided by wall clock because no step event fires inside one C-level regex call: the recorded regex blow-up finding (20 s), and the malformed include directive with a long ordinary file name, which the unchanged tree rejects in milliseconds - a 20 s timeout there is confirmed by a second run with 40 s before it counts)',
    'a write-side fault that fired relaxes FC1 (a disk that fails during the write is not "assembling the program fails")',
]
COMPONENTS = {'real': ['bespokeasm (whole package, from /repo/src)', 'click', 'yaml', 'json', 'intelhex', 'packaging', 're'],
              'stub': ['file system (SimFS)', 'cwd/env', 'clock', 'stdout/stderr', 'set iteration order',
                       'process boundary (fork instead of exec)']}

PDIR = '/sim/p'
OLD_IMAGE = 'OLD-IMAGE-SENTINEL-' * 40
WRITE_KINDS = {'write_enospc_after', 'write_short_after', 'close_eio', 'stdout_epipe', 'open_erofs', 'open_enospc'}
ZERO_FORMS = ['.fill 0, 0', '.zero 0', '.zerountil 0', '.fill 0, $ff', '.byte ""']


def main_lines(case):
    prog = list(case['prog'])
    inj = case.get('inject')
    if inj:
        prog.insert(min(inj['pos'], len(prog)), inj['line'])
    return prog


def build_world(case):
    files = {f'{PDIR}/{case["isa_name"]}': case['isa_text'],
             f'{PDIR}/main.asm': '\n'.join(main_lines(case)) + ('' if case.get('no_trailing_nl') else '\n')}
    for name, lines in case.get('includes', {}).items():
        files[f'{PDIR}/{name}'] = '\n'.join(lines) + '\n'
    image = image_path(case)
    if case.get('pre_image') is not None:
        files[image] = case['pre_image']
    argv = ['bespokeasm', 'compile', '-c', case['isa_name'], 'main.asm'] + list(case.get('opts', []))
    if case.get('output'):
        argv += ['-o', case['output']]
    if not case.get('binary', True):
        argv += ['--no-binary']
    if case.get('pretty_out'):
        argv += ['--pretty-print-output', case['pretty_out']]
    modes = {}
    if case.get('image_readonly') and case.get('pre_image') is not None:
        modes[image] = 0o444
    if case.get('crlf'):
        for pth in list(files):
            if pth.endswith('.asm'):
                files[pth] = files[pth].replace('\n', '\r\n')
    return {'files': files, 'argv': argv, 'cwd': PDIR, 'env': {'HOME': '/sim/home', 'LANG': 'C'}, 'modes': modes,
            'faults': list(case.get('faults', [])), 'step_budget': case.get('step_budget', 3_000_000),
            'stdout_mode': case.get('stdout_mode', 'block'),
            'dirs': [PDIR + '/out']}


def image_path(case):
    out = case.get('output') or 'main.bin'
    return out if out.startswith('/') else f'{PDIR}/{out}'


def failed(r):
    return r['kind'] == 'exception' or (r['kind'] == 'exit' and r['exit'] != 0)


def evaluate(case, r):
    """Returns (violation classes, observed summary)."""
    v = []
    img = image_path(case)
    pre = case.get('pre_image')
    post = r['files'].get(img)
    events = r['events']
    wopens = [e for e in events if e[1] == 'opened_w' and e[2] == img]
    fired = r.get('fired', [])
    write_fault = False
    for f in fired:
        k = f['kind']
        if k in WRITE_KINDS:
            write_fault = True
        elif k.startswith('open_') and f['at'] >= 0 and f['at'] < len(events):
            if any(c in (events[f['at']][3] or '') for c in 'wax+'):
                write_fault = True
    obs = {'kind': r['kind'], 'exit': r['exit'], 'exc': (r.get('exc') or '')[:200], 'steps': r['steps'],
           'image_pre': None if pre is None else len(pre), 'image_post': None if post is None else len(post),
           'image_write_opens': len(wopens), 'fired': [f['kind'] for f in fired],
           'stderr': r.get('stderr', '')[-200:]}
    if r['kind'] == 'step_budget':
        v.append('T-step-budget-exceeded')
        return v, obs
    if r['kind'] == 'wall_timeout':
        if case.get('wall_verdict'):
            v.append('T-wall-clock-exceeded')
        return v, obs
    if r['kind'] == 'crash':
        return v, obs
    only_stdout = bool(fired) and all(f['kind'] == 'stdout_epipe' for f in fired)
    if failed(r):
        if not write_fault:
            if post != pre:
                v.append('FC1-image-altered-on-failure')
            elif wopens:
                v.append('FC1-image-opened-for-writing-on-failure')
        elif only_stdout and post != pre:
            # the diagnostic channel broke, the disk did not: the image is either still what it was or it is the
            # complete new image (the failure came after it had been written) - never empty or partial
            m = re.search(r'Writing (\d+) bytes', r.get('stdout', '') + case.get('_baseline_stdout', ''))
            complete = case.get('_baseline_image')
            if complete is None or post != complete:
                v.append('FC1-image-left-partial-after-stdout-failure')
    else:
        if case.get('binary', True):
            if post is None:
                v.append('FC2-success-without-image')
            elif len(wopens) != 1:
                v.append('FC2-image-not-written-exactly-once')
            else:
                m = re.search(r'Writing (\d+) bytes', r.get('stdout', ''))
                if m and int(m.group(1)) != len(post):
                    v.append('FC2-image-incomplete')
                closes = [e for e in events if e[1] == 'close' and e[2] == img and e[3] == 'w']
                if not closes:
                    v.append('FC2-image-not-closed')
                trunc = [e for e in events if e[1] in ('truncate', 'create') and e[2] == img]
                if not trunc:
                    v.append('FC2-image-not-truncated')
            img_faults = [f for f in fired if f['kind'] in ('write_enospc_after', 'close_eio') or (
                f['kind'].startswith('open_') and 0 <= f['at'] < len(events) and events[f['at']][2] == img)]
            img_faults = [f for f in img_faults if 0 <= f['at'] < len(events) and events[f['at']][2] == img]
            if img_faults:
                v.append('FC2-success-despite-image-write-fault')
        else:
            if post != pre or wopens:
                v.append('FC2-nobinary-image-touched')
        if case.get('expect_fail'):
            v.append(f'FC3-accepted-invalid-{case["expect_fail"]}')
    return v, obs


def check_case(case):
    w = build_world(case)
    if case.get('xproc'):
        from sim import xproc
        rr = xproc.run_real(w, PDIR, hashseed=0, pyopt=case['xproc'].get('pyopt', 0))
        v = []
        img = image_path(case)
        if rr['kind'] == 'exit' and rr['exit'] == 0 and case.get('expect_fail'):
            v.append(f'FC3-accepted-invalid-{case["expect_fail"]}')
        elif rr['kind'] == 'exit' and rr['exit'] != 0 and rr['files'].get(img) != case.get('pre_image'):
            v.append('FC1-image-altered-on-failure')
        return {'violations': v, 'observed': {'exit': rr['exit'], 'stderr': rr['stderr'][-200:], 'xproc': case['xproc']},
                'result': {'steps': 0, 'kind': rr['kind'], 'exit': rr['exit'], 'events': [], 'files': rr['files'],
                           'fired': [], 'gaps': []}}
    r = child.run_world(w)
    if r['kind'] == 'wall_timeout' and case.get('wall_verdict'):
        # a statement the tool rejects within milliseconds: confirm with twice the wall budget before calling it
        r = child.run_world(w, wall_timeout=2 * child.WALL_TIMEOUT)
    fired = r.get('fired', [])
    if fired and all(f.get('kind') == 'stdout_epipe' for f in fired) and failed(r):
        # (decided by the faults that FIRED: a planned write fault that found nothing to write - an empty image
        # window - leaves a pure stdout failure; false alarm of soak 779)
        # what the complete image of this very case looks like (fault-free twin), for the stdout-failure clause
        twin = dict(case, faults=[])
        rt = child.run_world(build_world(twin))
        case = dict(case, _baseline_image=rt['files'].get(image_path(case)) if not failed(rt) else None)
    v, obs = evaluate(case, r)
    obs['gaps'] = r.get('gaps', [])
    return {'violations': v, 'observed': obs, 'result': r}


def shrink_paths(case):
    paths = [('prog',)]
    for name in case.get('includes', {}):
        paths.append(('includes', name))
    if case.get('faults'):
        paths.append(('faults',))
    return paths


def simplify(case):
    for key, val in (('pre_image', None), ('pretty_out', None), ('output', None)):
        if case.get(key) is not None:
            c = copy.deepcopy(case)
            c[key] = val
            yield c


# -----------------------------------------------------------------------------------------------
def gen_base(rnd):
    isa, info = gen.gen_isa(rnd)
    fmt = info['fmt']
    pg = gen.ProgGen(rnd, info, max_lines=18)
    prog = pg.generate() + [gen.SENTINEL]
    case = {'isa_text': gen.isa_text(isa, fmt), 'isa_name': 'isa.' + fmt, 'prog': prog, 'opts': [], 'binary': True}
    includes = {}
    if rnd.random() < 0.3:
        inc_lines = ['inc_lbl:', '  .byte 1, 2', '  nop']
        includes['inc1.asm'] = inc_lines
        pos = rnd.randrange(0, len(prog))
        prog.insert(pos, '#include "inc1.asm"')
    case['includes'] = includes
    if rnd.random() < 0.6:
        case['opts'] += ['-p', '-t', rnd.choice(['listing', 'hex', 'intel_hex', 'minhex'])]
        if rnd.random() < 0.4:
            case['pretty_out'] = 'list.txt'
    if rnd.random() < 0.3:
        case['output'] = rnd.choice(['out/rom.bin', 'o.bin'])
    if rnd.random() < 0.5:
        case['pre_image'] = OLD_IMAGE if rnd.random() < 0.7 else 'x'
    if rnd.random() < 0.15:
        case['crlf'] = True
    if rnd.random() < 0.12:
        case['binary'] = False
    if rnd.random() < 0.2 and info['addr_bits'] >= 12:
        case['opts'] += ['-e', str(info['origin'] + rnd.choice([63, 255, 511]))]
        if rnd.random() < 0.5:
            case['opts'] += ['-f', str(rnd.randrange(0, 256))]
        if rnd.random() < 0.3:
            case['opts'] += ['-s', str(info['origin'] + rnd.choice([0, 1, 5]))]
    elif rnd.random() < 0.12:
        # windows that contain nothing: start beyond the last byte, or end before start (a 0-byte image is written)
        case['opts'] += rnd.choice([['-s', '3000'], ['-s', '8', '-e', '4'], ['-s', '200', '-e', '100'], ['-s', '65535']])
    if rnd.random() < 0.25:
        case['opts'] += ['-v'] * rnd.choice([1, 2, 3])
    case['stdout_mode'] = rnd.choice(['line', 'block'])
    return case, info


def io_fault_variants(case, base_r, rnd):
    """Exhaustive single-fault enumeration over the baseline's FS events."""
    out = []
    files = build_world(case)['files']
    for idx, op, path, detail in base_r['events']:
        if op == 'open':
            mode = detail or 'r'
            if any(c in mode for c in 'wax+'):
                for k in ('open_eacces', 'open_erofs', 'open_enospc', 'open_eisdir'):
                    out.append([{'at': idx, 'kind': k}])
                size = len(base_r['files'].get(path, ''))
                for kk in sorted({0, size // 2, max(size - 1, 0)}):
                    out.append([{'at': idx, 'kind': 'write_enospc_after', 'k': kk}])
                    out.append([{'at': idx, 'kind': 'write_short_after', 'k': kk}])
                out.append([{'at': idx, 'kind': 'close_eio'}])
            else:
                for k in ('open_enoent', 'open_eacces', 'open_eisdir', 'open_eio', 'open_emfile'):
                    out.append([{'at': idx, 'kind': k}])
                content = files.get(path, '')
                n = len(content)
                for kk in sorted({0, n // 2}):
                    out.append([{'at': idx, 'kind': 'read_eio_after', 'k': kk}])
                bounds = [m.end() for m in re.finditer('\n', content)][:-1]
                if path.endswith('.asm'):
                    cuts = set(bounds) | {rnd.randrange(0, n) for _ in range(3) if n > 0}
                else:
                    cuts = set(rnd.sample(bounds, min(6, len(bounds)))) | {n // 3}
                cuts.add(0)
                for kk in sorted(cuts):
                    out.append([{'at': idx, 'kind': 'read_truncate', 'k': kk}])
        elif op == 'stat' and path.endswith('.asm'):
            for k in ('stat_eacces', 'stat_enoent', 'vanish_after_stat'):
                out.append([{'at': idx, 'kind': k}])
    # stdout is block-buffered (as when redirected to a pipe or file): a write reaches the sink at the final flush or
    # whenever the buffer fills; EPIPE is injected at every such write
    if case.get('stdout_mode') == 'line':
        nw = base_r['stdout'].count('\n')
    else:
        nw = max(1, len(base_r['stdout']) // 8192 + 1)
    if base_r['stdout']:
        for k in range(1, min(nw, 8) + 1):
            out.append([{'kind': 'stdout_epipe', 'k': k, 'stream': 'stdout'}])
    return out


def semantic_variants(case, info, rnd, extent=None):
    """E1-E4: corruptions that must be rejected."""
    out = []
    prog = case['prog']
    n = len(prog)

    def insert(line, tag):
        c = copy.deepcopy(case)
        # never insert in front of position 0 constants; any position is fine for these statements
        pos = rnd.randrange(0, n)          # before the sentinel
        c['inject'] = {'pos': pos, 'line': line}
        c['expect_fail'] = tag
        c['mutation'] = {'kind': tag}
        out.append(c)

    # E1: an unresolvable label in every position a label may appear in (incl. zero-count fills, muted lines)
    e1_forms = ['  .2byte undefd', '  .byte nolbl9 + 1', '  .fill 2, nowhere', '  .fill 0, nowhere', '  .fill nowhere, 1',
                '  .zero nowhere', '  .zerountil nowhere', '  .org nowhere', '  .4byte 1, nowhere', '  .8byte nowhere',
                '  .byte LSB(nowhere)', '  .byte 1, 2, (nowhere)', '  .fill (4 - 4) * 2, nowhere * 2',
                '  .byte .nolocal', '  .2byte _nofile']
    for form in rnd.sample(e1_forms, 4):
        insert(form, 'E1-unresolved-label')
    c = copy.deepcopy(case)
    pos = rnd.randrange(0, n)
    c['prog'][pos:pos] = ['#mute']
    c['inject'] = {'pos': pos + 1, 'line': rnd.choice(e1_forms[:4])}
    c['prog'].insert(pos + 1, '#unmute')
    c['expect_fail'] = 'E1-unresolved-label-in-muted-line'
    c['mutation'] = {'kind': 'E1-muted'}
    out.append(c)
    if case.get('includes'):
        c = copy.deepcopy(case)
        name = sorted(c['includes'])[0]
        c['prog'].insert(0, '_mainonly:')
        c['prog'].insert(1, '  .byte 1')
        c['includes'][name] = list(c['includes'][name]) + ['  .2byte _mainonly']
        c['expect_fail'] = 'E1-file-label-of-includer-used-in-included-file'
        c['mutation'] = {'kind': 'E1-cross-file'}
        c['inject'] = {'pos': 2, 'line': '  .byte 2'}
        out.append(c)
    for _ in range(2):
        insert(rnd.choice(['  zzq 5', '  qqz', '  zzq a, 3', '  .bite 5', '  .fil 2, 1']), 'E2-unknown-instruction')
    # an unknown instruction / a statement no variant accepts that FOLLOWS a directive on the same line
    insert(rnd.choice(['  .memzone GLOBAL zzq 5', '  .memzone GLOBAL qqz', '  .org $10 zzq 5', '  .align 2 zzq',
                       '  .memzone GLOBAL nop 1, 2, 3']), 'E2-unknown-instruction-after-directive')
    # E1: a local label of the region before a file-scope label, referenced after it (a `_name:` label starts a
    # new region just like a global one)
    c = copy.deepcopy(case)
    pos = rnd.randrange(0, n)
    # (one multi-line injection: the minimiser must not be able to take the setup away from the reference)
    c['inject'] = {'pos': pos, 'line': 'gq9:\n.lq9:\n  .byte 1\n_fq9:\n' + rnd.choice(['  .2byte .lq9', '  .byte LSB(.lq9)'])}
    c['expect_fail'] = 'E1-local-label-of-earlier-region-after-file-label'
    c['mutation'] = {'kind': 'E1-region'}
    out.append(c)
    # the offending statement as the very last line of a file that does not end with a newline
    for line, tag in ((rnd.choice(e1_forms[:3]), 'E1-unresolved-label'), ('  zzq 5', 'E2-unknown-instruction')):
        c = copy.deepcopy(case)
        c['inject'] = {'pos': n + 5, 'line': line}
        c['no_trailing_nl'] = True
        c['expect_fail'] = tag + '-last-line-no-newline'
        c['mutation'] = {'kind': 'last-line'}
        out.append(c)
    # E1 by renaming an existing reference
    labels = [m.group(1) for ln in prog for m in [re.match(r'^(\w+):', ln)] if m]
    for lab in labels[:2]:
        for i, ln in enumerate(prog):
            if re.search(rf'\b{lab}\b(?!:)', ln) and not ln.lstrip().startswith(';'):
                c = copy.deepcopy(case)
                del c['prog'][i]
                c['inject'] = {'pos': i, 'line': re.sub(rf'\b{lab}\b(?!:)', 'undefq', ln, count=1)}
                c['expect_fail'] = 'E1-unresolved-label'
                c['mutation'] = {'kind': 'E1-rename'}
                out.append(c)
                break
    allops = dict(info['sigs'])
    allops.update(info['macros'])
    ms = sorted(allops)
    lab_ops = [(m, ops) for m, vs in allops.items() for ops in vs if any(k in ('n8', 'n16', 'm16', 'n12') for k in ops)]
    if lab_ops:
        pg0 = gen.ProgGen(random.Random(rnd.random()), info)
        m, ops = rnd.choice(lab_ops)
        done = False
        texts = []
        for k in ops:
            if not done and k in ('n8', 'n16', 'm16', 'n12'):
                texts.append('[nowhere]' if k == 'm16' else 'nowhere')
                done = True
            else:
                texts.append(pg0.operand(k))
        insert(f'  {m} ' + ', '.join(texts), 'E1-unresolved-label-in-operand')
    for _ in range(2):
        m = rnd.choice(ms)
        cnt = max(len(v) for v in allops[m])
        insert(f'  {m} ' + ', '.join(str(i + 1) for i in range(cnt + 2)), 'E3-no-variant-accepts')
    # E3 by garbling the brackets of an otherwise valid operand (a dropped '[' , a stray ']' or '}')
    num_ops = [(m, ops) for m, vs in allops.items() for ops in vs if any(k in ('n8', 'n16', 'm16', 'n12', 'n4') for k in ops)]
    if num_ops:
        pg1 = gen.ProgGen(random.Random(rnd.random()), info)
        for _ in range(2):
            m, ops = rnd.choice(num_ops)
            texts = [pg1.operand(k) for k in ops]
            idx = rnd.choice([i for i, k in enumerate(ops) if k in ('n8', 'n16', 'm16', 'n12', 'n4')])
            t = texts[idx]
            if ops[idx] == 'm16':
                t = rnd.choice([t[1:], t + ']', t[:-1] + '}', t[1:-1] + ']]'])
            else:
                lit = str(rnd.randrange(0, 9))
                t = rnd.choice([lit + ']', lit + '}', '2+]3', lit + ']]', '{' + lit, lit + '[0]'])
            texts[idx] = t
            insert(f'  {m} ' + ', '.join(texts), 'E3-garbled-brackets')
        # stray commas change the number of operands
        for _ in range(2):
            m, ops = rnd.choice(num_ops)
            texts = [pg1.operand(k) for k in ops]
            form = rnd.randrange(3)
            joined = ', '.join(texts)
            joined = [joined + ',', ',' + joined, joined.replace(',', ',,', 1) if ',' in joined else joined + ', ,'][form]
            insert(f'  {m} {joined}', 'E3-stray-comma')
    # E3: an include directive with an ordinary long file name whose closing quote is missing or garbled
    long_name = ('lib_' + '_'.join(rnd.choice(['math', 'video', 'kernel', 'io', 'tables', 'v2', 'strings', 'x86ish'])
                                   for _ in range(12)))[:rnd.randrange(36, 52)] + '.asm'
    c = copy.deepcopy(case)
    c['inject'] = {'pos': rnd.randrange(0, n), 'line': '#include "' + long_name + rnd.choice(['', "'", ' ', '>', '\\'])}
    c['expect_fail'] = 'E3-malformed-include'
    c['mutation'] = {'kind': 'E3-malformed-include'}
    c['wall_verdict'] = True
    out.append(c)
    # E2: a byte that is no character at all inside a mnemonic (the token it garbles is no instruction in any encoding)
    instr = [i for i, ln in enumerate(prog) if re.match(r'^\s+([a-z]\w+)', ln) and re.match(r'^\s+([a-z]\w+)', ln).group(1) in allops]
    if instr:
        i = rnd.choice(instr)
        m = re.match(r'^(\s+)([a-z]\w+)(.*)$', prog[i])
        cut = rnd.randrange(1, len(m.group(2)))
        c = copy.deepcopy(case)
        del c['prog'][i]
        c['inject'] = {'pos': i, 'line': m.group(1) + m.group(2)[:cut] + rnd.choice('\xff\xfe\xc3\x80') + m.group(2)[cut:] + m.group(3)}
        c['expect_fail'] = 'E2-undecodable-byte-in-mnemonic'
        c['mutation'] = {'kind': 'E2-undecodable'}
        out.append(c)
    # E4: a displacement its 8-bit field cannot hold (with and without configured limits)
    rel_ops = [(m, ops) for m, vs in info['sigs'].items() for ops in vs if 'rel' in ops]
    top = (1 << info['addr_bits']) - 1
    flat = prog + [ln for ls in case.get('includes', {}).values() for ln in ls]
    if rel_ops and info['addr_bits'] >= 12 and extent is not None and top - (info['origin'] + extent) > 600 and not any(
            w in ln for ln in flat for w in ('.org', '.memzone', '.align', '.page')):
        pg2 = gen.ProgGen(random.Random(rnd.random()), info)
        m, ops = rnd.choice(rel_ops)
        texts = ['{' + str(top - rnd.randrange(0, 40)) + '}' if k == 'rel' else pg2.operand(k) for k in ops]
        insert(f'  {m} ' + ', '.join(texts), 'E4-overflow-rel')
    # E4: a sliced address whose high bits differ from those of the instruction (the low byte alone cannot say so);
    # instruction and target sit on either side of a real page boundary inside a zone that starts mid-page, so that
    # both lie in the same zone-relative page
    fj = info.get('special', {}).get('fjmp')
    if fj:
        zs = fj['start']
        boundary = (zs | 0xFF) + 1                     # first real page boundary inside the zone
        back = rnd.choice([2, 4, 16, 0x40])
        ahead = rnd.choice([0, 1, 0x10, 0x7f])
        for ok_case in (False, True):
            c = copy.deepcopy(case)
            tgt = boundary + ahead if not ok_case else boundary - 1 - (ahead % back)
            c['prog'] = c['prog'][:-1] + ['  .memzone ZU', f'  .org ${boundary - back:x}', '  .memzone GLOBAL'] + c['prog'][-1:]
            c['inject'] = {'pos': len(c['prog']) - 2, 'line': f'  fjmp ${tgt:x}'}
            c['mutation'] = {'kind': 'E4-sliced-address', 'valid': ok_case}
            if not ok_case:
                c['expect_fail'] = 'E4-sliced-address-in-another-page'
            else:
                c['expect_ok'] = 'sliced-address-in-the-same-page'      # control: shows that the scenario is live
            out.append(c)
    # E4: value the field cannot hold (only for numeric kinds that appear alone, to keep the statement well-formed)
    width = info['width']
    cands = []
    for m, variants in info['sigs'].items():
        for ops in variants:
            for i, k in enumerate(ops):
                if k in ('n8', 'n16', 'n4', 'n12', 'm16', 'ir', 'nb'):
                    cands.append((m, ops, i, k))
    rnd.shuffle(cands)
    pg = gen.ProgGen(random.Random(rnd.random()), info)
    for m, ops, i, k in cands[:4]:
        w = width[k]
        vals = ((1 << w, 'E4-overflow'), (-(1 << (w - 1)) - 1, 'E4-underflow'))
        if k == 'nb':
            # a range-checked bit field 0..7: one past either bound (a negative value fits the raw 3-bit width)
            vals = ((8, 'E4-overflow'), (-1, 'E4-underflow'), (-3, 'E4-underflow'))
        for val, tag in vals:
            texts = []
            for j, kk in enumerate(ops):
                if j == i:
                    sval = str(val) if val >= 0 else f'0 - {-val}'
                    if kk == 'm16':
                        texts.append(f'[{sval}]')
                    elif kk == 'ir':
                        texts.append(f'[{info["ireg"][0]}+{val}]' if val >= 0 else f'[{info["ireg"][0]}-{-val}]')
                    else:
                        texts.append(sval)
                else:
                    texts.append(pg.operand(kk))
            c = copy.deepcopy(case)
            pos = rnd.randrange(0, n)
            line = f'  {m} ' + ', '.join(texts)
            c['inject'] = {'pos': pos, 'line': line}
            c['expect_fail'] = f'{tag}-{k}'
            c['mutation'] = {'kind': tag, 'field_bits': w}
            out.append(c)
    return out


def zero_length_variants(case, rnd):
    out = []
    n = len(case['prog'])
    for pos in range(n + 1):
        forms = ZERO_FORMS if pos >= n - 1 else [ZERO_FORMS[(pos + rnd.randrange(5)) % 5]]
        for f in forms:
            c = copy.deepcopy(case)
            c['inject'] = {'pos': pos, 'line': '  ' + f}
            c['mutation'] = {'kind': 'zero-length', 'line': f}
            out.append(c)
    # a program in which EVERY byte-producing statement has length zero (a reserve-only module), with every listing
    # format and a stale image in place
    for fmt in ('listing', 'hex', 'intel_hex', 'minhex'):
        c = copy.deepcopy(case)
        c['prog'] = ['zq_buf:', '  ' + ZERO_FORMS[rnd.randrange(len(ZERO_FORMS))], 'zq_end:']
        c['includes'] = {}
        c['opts'] = ['-p', '-t', fmt]
        c['pre_image'] = OLD_IMAGE if rnd.random() < 0.5 else None
        c['inject'] = {'pos': 1, 'line': '  ' + ZERO_FORMS[rnd.randrange(len(ZERO_FORMS))]}
        c['mutation'] = {'kind': 'zero-length', 'line': 'whole program, -t ' + fmt}
        out.append(c)
    return out


def corrupt_text(rnd, text):
    """One textual corruption of a source text (latin-1 str). Returns (new text, description)."""
    lines = text.split('\n')
    k = rnd.randrange(9)
    idxs = [i for i, ln in enumerate(lines) if ln.strip()]
    if not idxs:
        return text + 'x', 'append'
    i = rnd.choice(idxs)
    toks = re.findall(r'\s+|[^\s]+', lines[i])
    tidx = [j for j, t in enumerate(toks) if t.strip()]
    if k == 0:
        del lines[i]
        return '\n'.join(lines), f'drop-line:{i}'
    if k == 1:
        lines.insert(i, lines[i])
        return '\n'.join(lines), f'dup-line:{i}'
    if k == 2 and len(idxs) > 1:
        j = rnd.choice(idxs)
        lines[i], lines[j] = lines[j], lines[i]
        return '\n'.join(lines), f'swap-lines:{i},{j}'
    if k == 3 and tidx:
        j = rnd.choice(tidx)
        del toks[j]
        lines[i] = ''.join(toks)
        return '\n'.join(lines), f'drop-token:{i}.{j}'
    if k == 4 and tidx:
        j = rnd.choice(tidx)
        toks.insert(j, toks[j] + ' ')
        lines[i] = ''.join(toks)
        return '\n'.join(lines), f'dup-token:{i}.{j}'
    if k == 5 and tidx:
        j = rnd.choice(tidx)
        t = list(toks[j])
        p = rnd.randrange(len(t))
        t[p] = rnd.choice('#.,;:[]()+-*$%"\'=_@!x9 ')
        toks[j] = ''.join(t)
        lines[i] = ''.join(toks)
        return '\n'.join(lines), f'garble-token:{i}.{j}'
    if k == 6:
        b = bytearray(text.encode('latin-1'))
        p = rnd.randrange(len(b))
        b[p] ^= 1 << rnd.randrange(8)
        return b.decode('latin-1'), f'bitflip:{p}'
    if k == 7:
        p = rnd.randrange(len(text))
        return text[:p], f'truncate:{p}'
    lines.insert(i, rnd.choice(['#endif', '#else', '#if', '#ifdef', '#define', '#include "main.asm"', '.org',
                                '.memzone nozone', '#elif 1', '#mute', ':', '=', '.align 0', '.zero 0 - 1']))
    return '\n'.join(lines), f'insert-directive:{i}'


def explore(subseed, cfg):
    rnd = random.Random(subseed)
    out = {'evaluations': 0, 'runs': 0, 'steps': 0, 'probes': {}, 'faults_fired': {}, 'discarded': {},
           'violations': [], 'samples': [], 'distinct': set(), 'harness': [], 'sim_clock_s': 0.0}
    case, info = gen_base(rnd)
    base = check_case(case)
    br = base['result']
    out['runs'] += 1
    out['steps'] += br['steps']
    for vv in base['violations']:
        # the fault-free run of a generated (valid) program is itself a case: it must terminate, and if it reports
        # success the image must be there
        out['violations'].append({'case': case, 'class': vv, 'group': 'baseline'})
    if failed(br) or br['kind'] != 'exit':
        reason = (br.get('exc') or br.get('stderr') or br['kind'])[:60]
        out['discarded'][f'baseline: {reason}'] = 1
        return _fin(out)
    max_steps = br['steps']

    def run(c, group):
        res = check_case(c)
        r = res['result']
        out['runs'] += 1
        out['evaluations'] += 1
        out['steps'] += r['steps']
        out['sim_clock_s'] += max(0.0, r.get('clock', 0) - 1.7e9)
        if r.get('gaps'):
            out['harness'].append(f'HARNESS-GAP {r["gaps"][:2]}')
            return res
        if r['kind'] == 'crash':
            out['harness'].append(f'child crash: {r.get("exc")}')
            return res
        if r['kind'] == 'wall_timeout' and not res['violations']:
            out['harness'].append(f'HARNESS-TIMEOUT group={group} mutation={c.get("mutation")}')
            return res
        for f in r['fired']:
            out['faults_fired'][f['kind']] = out['faults_fired'].get(f['kind'], 0) + 1
        if r['fired'] or group != 'baseline':
            sig = (r['kind'], r['exit'], tuple((e[1], e[2], e[3]) for e in r['events']),
                   tuple(f['kind'] for f in r['fired']), group.split(':')[0] if not r['fired'] else '')
            out['distinct'].add(H(sig) & 0xFFFFFFFFFFFF)
        for vv in res['violations']:
            out['violations'].append({'case': c, 'class': vv, 'group': group})
        # probes
        pr = out['probes']
        if failed(r):
            pr['failed_runs'] = pr.get('failed_runs', 0) + 1
            where = ' '.join(r.get('where') or [])
            ev_ops = [e for e in r['events'] if e[1] == 'open' and e[2] == image_path(c)]
            if ev_ops:
                pr['failure_after_image_open'] = pr.get('failure_after_image_open', 0) + 1
            if 'listing.py' in where or 'pretty' in where:
                pr['failure_in_pretty_printer'] = pr.get('failure_in_pretty_printer', 0) + 1
            if r['kind'] == 'exception' and 'UnicodeDecodeError' in (r.get('exc') or ''):
                pr['invalid_utf8_source'] = pr.get('invalid_utf8_source', 0) + 1
        else:
            pr['succeeded_runs'] = pr.get('succeeded_runs', 0) + 1
        if any(f['kind'] == 'write_enospc_after' for f in r['fired']):
            pr['enospc_mid_write'] = pr.get('enospc_mid_write', 0) + 1
        return res

    # (1) exhaustive single I/O fault enumeration
    for faults in io_fault_variants(case, br, rnd):
        c = copy.deepcopy(case)
        c['faults'] = faults
        res = run(c, 'io:' + faults[0]['kind'])
        if not res['result']['fired'] and res['result']['kind'] == 'exit':
            out['probes']['fault_planned_not_fired'] = out['probes'].get('fault_planned_not_fired', 0) + 1
    # (1b) states of the file system around the output path (no injected fault: the state itself makes the write fail)
    for st_ in ('readonly-image', 'missing-output-dir', 'output-is-directory'):
        c = copy.deepcopy(case)
        if st_ == 'readonly-image':
            c['pre_image'] = c.get('pre_image') or OLD_IMAGE
            c['image_readonly'] = True
        elif st_ == 'missing-output-dir':
            c['output'] = 'nodir/sub/rom.bin'
            c['pre_image'] = None
        else:
            c['output'] = 'out'
            c['pre_image'] = None
        c['mutation'] = {'kind': 'fs-state', 'state': st_}
        if c.get('binary', True):
            c['expect_fail'] = 'FS-' + st_
            if st_ == 'output-is-directory':
                c['expect_fail'] = None       # evaluated below: must fail, and nothing may appear
        res = run(c, 'state:' + st_)
        out['probes']['fs_state_' + st_] = out['probes'].get('fs_state_' + st_, 0) + 1
        if st_ == 'output-is-directory' and c.get('binary', True) and not failed(res['result']):
            out['violations'].append({'case': c, 'class': 'FC2-success-although-output-path-is-a-directory',
                                      'group': 'state'})
    # (2) zero-length directives at every position
    for c in zero_length_variants(case, rnd):
        c['step_budget'] = max(400_000, max_steps * 6)
        run(c, 'zero:' + c['mutation']['line'])
        out['probes']['zero_length_inserted'] = out['probes'].get('zero_length_inserted', 0) + 1
    # (3) E1-E4
    extent = len(br['files'].get(image_path(case)) or '') if case.get('binary', True) else None
    for c in semantic_variants(case, info, rnd, extent):
        if c.get('expect_ok'):
            res = run(c, 'control:' + c['expect_ok'])
            key = 'control_' + c['expect_ok'] + ('_accepted' if not failed(res['result']) else '_rejected')
            out['probes'][key] = out['probes'].get(key, 0) + 1
            continue
        run(c, 'sem:' + c['expect_fail'])
        out['probes']['E:' + c['expect_fail'].split('-')[0]] = out['probes'].get('E:' + c['expect_fail'].split('-')[0], 0) + 1
    # (4) sampled textual corruptions (1-4 in sequence) and fault pairs
    main_text = '\n'.join(case['prog']) + '\n'
    for _ in range(cfg.get('corruptions', 10)):
        text = main_text
        descr = []
        for _ in range(rnd.randrange(1, 5)):
            text, d = corrupt_text(rnd, text)
            descr.append(d)
        c = copy.deepcopy(case)
        c['prog'] = text.split('\n')
        c['no_trailing_nl'] = True
        c['mutation'] = {'kind': 'corrupt', 'ops': descr}
        c['step_budget'] = max(400_000, max_steps * 6)
        run(c, 'corrupt')
    singles = io_fault_variants(case, br, rnd)
    for _ in range(cfg.get('pairs', 4)):
        if len(singles) >= 2:
            a, b = rnd.sample(singles, 2)
            c = copy.deepcopy(case)
            c['faults'] = a + b
            run(c, 'io-pair')
    # (5) cross-process tier: the cases with a known verdict are repeated in real interpreters (real file system, real
    # hash seeds, `python -O` / `-OO` where asserts are compiled away) - rejected programs must stay rejected, closed
    if (subseed & 0xFFFFFFFF) % cfg.get('xproc_every', 6) == 0:
        from sim import xproc
        sem = [c for c in semantic_variants(case, info, random.Random(subseed ^ 0x5EED), extent) if c.get('expect_fail')]
        picks = rnd.sample(sem, min(cfg.get('xproc_cases', 5), len(sem)))
        for i, c in enumerate(picks):
            pyopt = [1, 2, 0][i % 3]
            w = build_world(c)
            try:
                rr = xproc.run_real(w, PDIR, hashseed=rnd.randrange(0, 4000), pyopt=pyopt)
            except Exception as e:
                out['harness'].append(f'xproc: {type(e).__name__}: {e}')
                continue
            out['runs'] += 1
            out['evaluations'] += 1
            out['probes']['xproc_runs'] = out['probes'].get('xproc_runs', 0) + 1
            out['probes'][f'xproc_pyopt_{pyopt}'] = out['probes'].get(f'xproc_pyopt_{pyopt}', 0) + 1
            img = image_path(c)
            c2 = copy.deepcopy(c)
            c2['xproc'] = {'pyopt': pyopt}
            if rr['kind'] == 'exit' and rr['exit'] == 0 and c.get('expect_fail'):
                out['violations'].append({'case': c2, 'class': f'FC3-accepted-invalid-{c["expect_fail"]}', 'group': 'xproc'})
            elif rr['kind'] == 'exit' and rr['exit'] != 0 and rr['files'].get(img) != c.get('pre_image'):
                out['violations'].append({'case': c2, 'class': 'FC1-image-altered-on-failure', 'group': 'xproc'})
            out['distinct'].add(H(('xproc', c.get('expect_fail'), pyopt, i)) & 0xFFFFFFFFFFFF)
    if not out['samples']:
        out['samples'].append({'subseed': subseed, 'argv': build_world(case)['argv'], 'main.asm': case['prog'][:12],
                               'n_io_fault_cases': len(singles), 'baseline_events': [list(e) for e in br['events']][:14]})
    return _fin(out)


def _fin(out):
    out['distinct'] = sorted(out['distinct'])
    return out
