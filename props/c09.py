"""C09 - Preprocessor symbols are substituted as whole words, in definition order.  (history-driven, fault-free)

A Hypothesis state machine generates histories of symbol definitions arriving from three sources (ISA definition,
command line, #define: chains, diamonds, cycles, redefinitions), constant definitions whose names collide with symbol
names (prefix / suffix / infix / identical-but-defined-later) and use lines mixing all of them.  A whole-word
substitution reference model is stepped in lockstep; after every operation the prefix is assembled by the real CLI in
the simulator and exit status + emitted bytes must equal the model's.
"""
import copy
import re

from sim.runner import H
from sim import child, gen

ID = 'C09'
LEVEL = 'exploration'
TIERS = {
    'quick': {'subseeds': 32, 'examples': 14, 'steps': 20, 'wall_budget': 240, 'min_runs': 200, 'task_timeout': 900},
    'thorough': {'subseeds': 480, 'examples': 40, 'steps': 26, 'wall_budget': 2400, 'min_runs': 300,
                 'task_timeout': 3000},
}
RULE = ('one case = one history of definition / use operations drawn by a Hypothesis rule-based state machine under '
        'hypothesis.seed(sub-seed); every kept prefix and every rejection probe is one evaluation (one simulated CLI run '
        'compared with the whole-word substitution model); non-trivial = the history contains a use line that mentions a '
        'defined symbol; distinct = distinct (definition graph shape, source assignment, use-line shape) digests')
ASSUMPTIONS = [
    'fault-free, history-driven use of the technique (the hidden variable is when each definition is encountered relative to each use)',
    'excluded: one-character symbol names (the code cannot define them; the property does not promise them), -D a=b=c, names starting with a digit',
    'expected values use literals, + and * only, so no dependence on expression-parser properties that are not claimed',
    'a cyclic definition is only required to be rejected when a line uses it (definitions alone are accepted)',
]
COMPONENTS = {'real': ['bespokeasm (whole package) through the CLI entry point', 'click', 'yaml'],
              'stub': ['file system (SimFS)', 'stdout', 'process boundary (fork)'],
              'model': ['props/c09.py:SubstModel (whole-word, fixpoint, cycle-rejecting substitution)']}

PDIR = '/sim/p'
NAMES = ['AB', 'ABC', 'XAB', 'A_B', 'AB1', 'BA', 'B1', 'CC', 'Ab', 'cc', 'b1', 'ADH', 'b10', '\u0394t', '\u00b5s']
# constants whose names contain symbol names as prefix / suffix / infix, or equal a name that may become a symbol later
CONST_NAMES = ['XABY', 'ABX', 'Q_AB', 'AB1', 'BA', 'ABCD', 'CCC', 'B12', 'ZA_B', 'ab', 'aB', 'Cc', 'ba']
WORD = re.compile(r'\b[^\W\d]\w+\b')       # a letter (any script) or '_', then word characters


class Reject(Exception):
    pass


def well_formed(t):
    """term (op term)* with term = number | '(' expr ')' - no unary operators, no juxtaposition"""
    toks = re.findall(r'\d+|[+*()]', t)
    if ''.join(toks) != t.replace(' ', ''):
        return False
    if re.search(r'\d\s+\d', t):
        return False
    pos = 0

    def expr():
        nonlocal pos
        if not term():
            return False
        while pos < len(toks) and toks[pos] in '+*':
            pos += 1
            if not term():
                return False
        return True

    def term():
        nonlocal pos
        if pos >= len(toks):
            return False
        if toks[pos].isdigit():
            pos += 1
            return True
        if toks[pos] == '(':
            pos += 1
            if not expr() or pos >= len(toks) or toks[pos] != ')':
                return False
            pos += 1
            return True
        return False
    return expr() and pos == len(toks)


class SubstModel:
    def __init__(self, pre, cli):
        self.symbols = {}
        self.source = {}
        for n, v in pre.items():
            self.symbols[n] = v or ''
            self.source[n] = 'isa'
        for n, v in cli.items():
            self.symbols[n] = v or ''
            self.source[n] = 'cli'
        self.consts = {}
        self.out = []           # expected bytes (a muted byte occupies its address and shows as fill 0)
        self.mute = 0
        self.probes = {}
        self.shape = []

    def expand(self, text, stack=()):
        """whole-word substitution to a fixpoint; raises Reject on a cycle"""
        def repl(m):
            w = m.group(0)
            if w in self.symbols:
                if w in stack:
                    raise Reject(w)
                return self.expand(self.symbols[w], stack + (w,))
            return w
        return WORD.sub(repl, text)

    def evaluate(self, text):
        """value of a fully substituted expression made of literals, constants, + * ( )"""
        def repl(m):
            w = m.group(0)
            if w in self.consts:
                return str(self.consts[w])
            raise KeyError(w)
        t = re.sub(r'\$([0-9a-fA-F]+)', lambda m: str(int(m.group(1), 16)), text)
        t = WORD.sub(repl, t)
        if not re.fullmatch(r'[0-9+*() ]+', t) or not well_formed(t):
            raise KeyError(t)
        return int(eval(t, {'__builtins__': {}}, {}))   # noqa: S307 - digits and + * ( ) only

    def apply(self, op):
        k = op['op']
        if k == 'const':
            if op['name'] in self.consts:
                return None
            # the definition line itself is subject to substitution: skip names that are symbols right now
            if op['name'] in self.symbols:
                return None
            self.consts[op['name']] = op['value']
            return 'keep', [f'{op["name"]} = {op["value"]}']
        if k == 'mute':
            self.mute += 1
            return 'keep', ['#mute']
        if k == 'unmute':
            self.mute = max(0, self.mute - 1)
            return 'keep', [op.get('word', '#unmute')]
        if k == 'define':
            line = f'#define {op["name"]}' + (f' {op["value"]}' if op['value'] != '' else '')
            if self.mute:
                self.probes['define_while_muted'] = self.probes.get('define_while_muted', 0) + 1
            if op['name'] in self.symbols:
                self.probes['redefinition_' + self.source[op['name']]] = self.probes.get(
                    'redefinition_' + self.source[op['name']], 0) + 1
                return 'probe', [line]
            self.symbols[op['name']] = op['value']
            self.source[op['name']] = 'define'
            return 'keep', [line]
        if k == 'use_str':
            # a symbol whose replacement text is a quoted string (may contain backslash escapes), used by .cstr / .byte
            name, directive = op['name'], op['directive']
            line = f'  {directive} {name}'
            if name not in self.symbols:
                return None
            try:
                final = self.expand(name)
            except Reject:
                return 'probe', [line]
            m = re.fullmatch(r'"((?:[^"\\]|\\.)*)"', final.strip())
            if not m:
                return None
            if not m.group(1).isascii():
                return None
            try:
                txt = bytes(m.group(1), 'utf-8').decode('unicode_escape')
            except Exception:
                return None
            vals = [ord(ch) & 0xFF for ch in txt]
            if directive in ('.cstr', '.asciiz'):
                vals.append(0)
            if not vals:
                return None
            self.out += vals if not self.mute else [0] * len(vals)
            self.probes['string_valued_symbol_used'] = self.probes.get('string_valued_symbol_used', 0) + 1
            if '\\' in m.group(1):
                self.probes['replacement_text_with_backslash'] = self.probes.get('replacement_text_with_backslash', 0) + 1
            self.shape.append(('str', len(vals), directive))
            return 'keep', [line]
        if k == 'use_quoted':
            # a symbol mentioned INSIDE a quoted string on an ordinary line: a whole-word occurrence like any other
            inner, directive = op['inner'], op['directive']
            line = f'  {directive} "{inner}"'
            if '"' in inner or not any(w in self.symbols for w in WORD.findall(inner)):
                return None
            try:
                final = self.expand(inner)
            except Reject:
                return 'probe', [line]
            if '"' in final or '\\' in final or ';' in final or not final or not final.isascii():
                return None
            vals = [ord(ch) & 0xFF for ch in final] + ([0] if directive in ('.cstr', '.asciiz') else [])
            self.out += vals if not self.mute else [0] * len(vals)
            self.probes['symbol_inside_quoted_string'] = self.probes.get('symbol_inside_quoted_string', 0) + 1
            self.shape.append(('quoted', len(vals), directive))
            return 'keep', [line]
        if k == 'use_raw':
            # an identifier that contains the symbol's name next to a byte that is no UTF-8 (file saved in a legacy code
            # page): it can name nothing, so a run that accepts the line has dropped the byte and substituted the rest
            name = op['name']
            if name not in self.symbols:
                return None
            raw = chr(0xDC00 + op['byte'])
            ident = {'before': raw + name, 'after': name + raw, 'inside': name[:1] + raw + name[1:]}[op['where']]
            return 'probe', [f'  .byte {ident}']
        if k == 'use_stmt':
            # a symbol standing for a whole statement, alone on its line (its name may look like a mnemonic in other case)
            name = op['name']
            line = op.get('lead', '  ') + name
            if name not in self.symbols:
                return None
            try:
                final = self.expand(name).strip()
            except Reject:
                return 'probe', [line]
            m = re.fullmatch(r'(\.byte|ldi) (.+)|(nop)', final)
            if not m:
                return None
            try:
                vals = [0] if m.group(3) else ([1] if m.group(1) == 'ldi' else []) + [self.evaluate(m.group(2)) & 0xFF]
            except (KeyError, SyntaxError, ValueError, TypeError):
                return None
            self.out += vals if not self.mute else [0] * len(vals)
            self.probes['symbol_stands_for_statement'] = self.probes.get('symbol_stands_for_statement', 0) + 1
            self.shape.append(('stmt', len(vals), name.lower() in ('nop', 'ldi')))
            return 'keep', [line]
        if k == 'use_local_label':
            # a symbol standing for a LOCAL label's name, as the first token of its line (`.S:`) and in an operand (`.S`)
            name = op['name']
            if name not in self.symbols or self.mute:
                return None
            try:
                final = self.expand(name).strip()
            except Reject:
                return 'probe', [f'.{name}:']
            if not re.fullmatch(r'lbl\d+', final):
                return None
            g = f'glb{len(self.shape)}'
            if g in self.consts or g in self.symbols:
                return None
            addr = len(self.out)
            self.consts[g] = addr
            self.out += list(addr.to_bytes(2, 'big'))
            self.probes['symbol_stands_for_local_label_name'] = self.probes.get('symbol_stands_for_local_label_name', 0) + 1
            self.shape.append(('local-label', 2, final))
            return 'keep', [f'{g}:', f'.{name}:', f'  .2byte .{name}']
        if k == 'use_label':
            # a symbol standing for a label's name on a label-only line
            name = op['name']
            line = f'{name}:'
            if name not in self.symbols or self.mute:
                return None
            try:
                final = self.expand(name).strip()
            except Reject:
                return 'probe', [line]
            if not re.fullmatch(r'lbl\d+', final) or final in self.consts:
                return None
            self.consts[final] = len(self.out)
            self.probes['symbol_stands_for_label_name'] = self.probes.get('symbol_stands_for_label_name', 0) + 1
            self.shape.append(('label', 0, final))
            return 'keep', [line]
        if k == 'use':
            text = op['text']
            directive = op.get('directive', '.byte')
            line = f'  {directive} {text}'
            words = WORD.findall(text)
            mentioned = [w for w in words if w in self.symbols]
            try:
                final = self.expand(text)
            except Reject:
                self.probes['cycle_reached'] = self.probes.get('cycle_reached', 0) + 1
                return 'probe', [line]
            try:
                vals = [self.evaluate(part) for part in final.split(',')]
            except (KeyError, SyntaxError, ValueError, TypeError):
                return None
            width = 2 if directive == '.2byte' else 1
            for v in vals:
                v &= (1 << (8 * width)) - 1
                self.out += list(v.to_bytes(width, 'big')) if not self.mute else [0] * width
            if mentioned:
                self.probes['use_mentions_symbol'] = self.probes.get('use_mentions_symbol', 0) + 1
                srcs = {self.source[w] for w in mentioned}
                if len(srcs) == 3:
                    self.probes['one_line_all_three_sources'] = self.probes.get('one_line_all_three_sources', 0) + 1
                for w in words:
                    if w not in self.symbols and any(s in w for s in mentioned):
                        self.probes['symbol_name_infix_of_other_identifier_same_line'] = self.probes.get(
                            'symbol_name_infix_of_other_identifier_same_line', 0) + 1
                        break
            for w in words:
                if w in self.consts and w not in self.symbols and w in NAMES:
                    self.probes['constant_named_like_a_possible_symbol_used'] = self.probes.get(
                        'constant_named_like_a_possible_symbol_used', 0) + 1
            self.shape.append((len(words), len(mentioned), directive))
            return 'keep', [line]
        return None


def isa_for(pre):
    isa = gen.simple_isa()
    if pre:
        # an empty replacement text is written either by omitting `value` or as an explicit null
        isa['predefined'] = {'symbols': [dict(name=n, **({'value': v} if v != '' else (
            {'value': None} if len(n) % 2 else {}))) for n, v in pre.items()]}
    return isa


def world_for(case, lines):
    argv = ['bespokeasm', 'compile', '-c', 'isa.yaml', 'main.asm']
    argv += ['-v'] * case.get('verbosity', 0)          # logging level is not supposed to change what is assembled
    for i, (n, v) in enumerate(case['cli_symbols'].items()):
        sp = case.get('cli_spacing', 0)
        eq = ['=', ' = ', ' =', '= '][(sp + i) % 4] if sp else '='
        argv += ['-D', (' ' if sp == 2 else '') + (n if v == '' else f'{n}{eq}{v}')]
    for raw in case.get('cli_raw', []):
        argv += ['-D', raw]
    text = ('\r\n' if case.get('crlf') else '\n').join(
        lines + ['#unmute'] * sum(1 for x in lines if x == '#mute') + ['  .byte $EE']) + '\n'
    env_syms = {}
    if case.get('cli_via_env') and case['cli_symbols'] and not case.get('cli_raw'):
        # the command line's documented environment form (click auto_envvar_prefix): same definitions, no -D
        vals = [n if v == '' else f'{n}={v}' for n, v in case['cli_symbols'].items()]
        if all(' ' not in x for x in vals):
            env_syms = {'BESPOKEASM_COMPILE_MACRO_SYMBOL': ' '.join(vals)}
            argv = [a for i, a in enumerate(argv) if not (a == '-D' or (i > 0 and argv[i - 1] == '-D'))]
    return {'files': {f'{PDIR}/isa.yaml': gen.isa_text(isa_for(case['pre_symbols']), 'yaml'),
                      # stored as UTF-8 bytes; a lone surrogate stands for one raw byte
                      f'{PDIR}/main.asm': text.encode('utf-8', 'surrogateescape').decode('latin-1')},
            'argv': argv, 'cwd': PDIR, 'step_budget': 3_000_000, 'set_seed': case.get('set_seed'),
            # environment variables named like hex numbers / compilers: `$FC` in a value is a hex literal, not a variable
            'env': dict({'HOME': '/sim/home', 'FC': '10', 'F77': 'gfortran', 'CC': 'cc', 'AB': '77', 'BA': '5'},
                        **env_syms)}


def run_history(case, stats=None):
    model = SubstModel(case['pre_symbols'], case['cli_symbols'])
    lines = []
    viol = []
    obs = {'steps': []}
    for i, op in enumerate(case['ops']):
        res = model.apply(op)
        if res is None:
            continue
        mode, new = res
        r = child.run_world(world_for(case, lines + new))
        if stats is not None:
            stats['runs'] += 1
            stats['evaluations'] += 1
            stats['steps'] += r['steps']
        if r['kind'] in ('crash', 'wall_timeout') or r.get('gaps'):
            obs['harness'] = f'{r["kind"]} {r.get("gaps")}'
            if mode == 'keep':
                lines = lines + new
            continue
        if r['kind'] == 'step_budget':
            viol.append('SUB-expansion-does-not-terminate')
            obs['steps'].append({'i': i, 'op': op})
            break
        ok = r['kind'] == 'exit' and r['exit'] == 0
        if mode == 'probe':
            if ok:
                viol.append({'define': 'SUB-accepted-redefinition', 'use_raw': 'SUB-identifier-with-undecodable-byte-substituted'}.get(op['op'], 'SUB-accepted-cyclic-symbol'))
                obs['steps'].append({'i': i, 'op': op, 'lines': new})
            continue
        lines = lines + new
        if not ok:
            viol.append('SUB-valid-history-rejected')
            obs['steps'].append({'i': i, 'op': op, 'exit': r['exit'], 'exc': (r.get('exc') or r.get('stderr') or '')[:200]})
            break
        img = r['files'].get(f'{PDIR}/main.bin')
        got = [ord(c) for c in img] if img is not None else None
        exp = model.out + [0xEE]
        if got != exp:
            viol.append('SUB-wrong-bytes')
            obs['steps'].append({'i': i, 'op': op, 'expected': exp[-8:], 'got': (got or [])[-8:]})
            break
    obs['lines'] = lines
    return sorted(set(viol)), obs, model


def init_probe_violations(case):
    """command-line / ISA collisions cannot be part of a history (the run never starts): one-shot probes"""
    v = []
    r = child.run_world(world_for(case, []))
    if r['kind'] == 'exit' and r['exit'] == 0:
        v.append('SUB-accepted-redefinition')
    return v, r


def check_xproc(case):
    from sim import xproc
    model = SubstModel(case['pre_symbols'], case['cli_symbols'])
    lines = []
    for op in case['ops']:
        res = model.apply(op)
        if res is None or res[0] == 'probe':
            continue
        lines += res[1]
    w = world_for(case, lines)
    rr = xproc.run_real(w, PDIR, hashseed=case['xproc'].get('hashseed', 0), pyopt=case['xproc'].get('pyopt', 0),
                        env_extra={k: v for k, v in w['env'].items() if k != 'HOME'})
    v = []
    obs = {'xproc': case['xproc'], 'exit': rr['exit'], 'stderr': rr['stderr'][-200:], 'lines': lines}
    if rr['kind'] != 'exit' or rr['exit'] != 0:
        v.append('SUB-valid-history-rejected')
    else:
        img = rr['files'].get(f'{PDIR}/main.bin')
        got = [ord(ch) for ch in img] if img is not None else None
        if got != model.out + [0xEE]:
            v.append('SUB-wrong-bytes')
            obs['expected'] = (model.out + [0xEE])[-10:]
            obs['got'] = (got or [])[-10:]
    return {'violations': v, 'observed': obs}


def check_case(case):
    if case.get('xproc'):
        return check_xproc(case)
    if case.get('kind') == 'init-collision':
        v, r = init_probe_violations(case)
        return {'violations': v, 'observed': {'argv': world_for(case, [])['argv'], 'exit': r['exit']}}
    v, obs, model = run_history(case)
    return {'violations': v, 'observed': obs}


def shrink_paths(case):
    return [('ops',)] if case.get('ops') else []


def simplify(case):
    for key in ('pre_symbols', 'cli_symbols'):
        for n in list(case[key]):
            c = copy.deepcopy(case)
            del c[key][n]
            yield c


# -----------------------------------------------------------------------------------------------
class Violation(Exception):
    def __init__(self, classes, case, obs):
        super().__init__(f'{classes}')
        self.classes = classes
        self.case = case
        self.obs = obs


def make_machine(stats, box):
    from hypothesis import strategies as st
    from hypothesis.stateful import RuleBasedStateMachine, initialize, rule

    name = st.sampled_from(NAMES)
    cname = st.sampled_from(CONST_NAMES)
    lit = st.integers(min_value=0, max_value=60).map(str)
    atom = st.one_of(lit, name, name, cname)

    @st.composite
    def expr(draw, atoms=atom):
        n = draw(st.integers(min_value=1, max_value=3))
        parts = [draw(atoms)]
        for _ in range(n - 1):
            parts.append(draw(st.sampled_from([' + ', '+', ' * ', '*'])))
            parts.append(draw(atoms))
        e = ''.join(parts)
        if draw(st.booleans()) and n > 1:
            e = f'({e})'
        return e

    value = st.one_of(lit, expr(st.one_of(lit, name)), name, st.just(''))
    sym_init = st.dictionaries(st.sampled_from(NAMES[:5]), st.one_of(lit, st.just(''), name), max_size=2)

    class Machine(RuleBasedStateMachine):
        def __init__(self):
            super().__init__()
            self.case = {'pre_symbols': {}, 'cli_symbols': {}, 'ops': []}
            self.model = None
            self.lines = []

        @initialize(pre=sym_init, cli=st.dictionaries(st.sampled_from(NAMES[3:]), st.one_of(
            lit, st.just(''), st.sampled_from(['$FC', '$F77', '$1F', '$a + 1', '7,8', '1, 2', '$11,$22'])), max_size=2),
            sseed=st.one_of(st.none(), st.integers(min_value=1, max_value=1 << 30)))
        def init(self, pre, cli, sseed):
            cli = {k: v for k, v in cli.items() if k not in pre}
            self.case['set_seed'] = sseed        # iteration order of every set the assembler builds with set(...)
            self.case['pre_symbols'] = dict(pre)
            self.case['cli_symbols'] = dict(cli)
            self.case['crlf'] = (len(pre) + len(cli)) % 3 == 2
            self.case['cli_via_env'] = len(cli) > 0 and (len(pre) + sum(map(len, cli))) % 4 == 1
            self.case['cli_spacing'] = (len(pre) * 2 + len(cli)) % 3       # blanks around '=' / before the name in -D
            self.case['verbosity'] = [0, 0, 1, 2, 3][(len(pre) + 3 * len(cli) + sum(map(len, pre))) % 5]
            self.model = SubstModel(dict(pre), dict(cli))
            stats['histories'] += 1
            for i, cn in enumerate(['XABY', 'ABX', 'Q_AB']):
                if cn not in self.model.symbols:
                    self.do({'op': 'const', 'name': cn, 'value': 3 + 2 * i})

        def do(self, op, check=True):
            res = self.model.apply(op)
            if res is None:
                return
            self.case['ops'].append(op)
            mode, new = res
            if not check and mode == 'keep':
                # intermediate step of an idiom: recorded and kept, assembled together with the next checked step
                self.lines = self.lines + new
                return
            r = child.run_world(world_for(self.case, self.lines + new))
            stats['runs'] += 1
            stats['evaluations'] += 1
            stats['steps'] += r['steps']
            if r['kind'] in ('crash', 'wall_timeout') or r.get('gaps'):
                stats['harness'].append(f'{r["kind"]} {r.get("gaps")}')
                if mode == 'keep':
                    self.lines = self.lines + new
                return
            if r['kind'] == 'step_budget':
                raise Violation(['SUB-expansion-does-not-terminate'], copy.deepcopy(self.case), {})
            ok = r['kind'] == 'exit' and r['exit'] == 0
            if mode == 'probe':
                if ok:
                    cls = {'define': 'SUB-accepted-redefinition', 'use_raw': 'SUB-identifier-with-undecodable-byte-substituted'}.get(op['op'], 'SUB-accepted-cyclic-symbol')
                    raise Violation([cls], copy.deepcopy(self.case), {'probe': new})
                return
            self.lines = self.lines + new
            if not ok:
                raise Violation(['SUB-valid-history-rejected'], copy.deepcopy(self.case),
                                {'exc': (r.get('exc') or '')[:160]})
            img = r['files'].get(f'{PDIR}/main.bin')
            got = [ord(c) for c in img] if img is not None else None
            if got != self.model.out + [0xEE]:
                raise Violation(['SUB-wrong-bytes'], copy.deepcopy(self.case), {})

        @rule(n=name, v=value)
        def define(self, n, v):
            self.do({'op': 'define', 'name': n, 'value': v})

        @rule(data=st.data())
        def redefine_with_identical_text(self, data):
            if self.model.symbols:
                n = data.draw(st.sampled_from(sorted(self.model.symbols)))
                self.do({'op': 'define', 'name': n, 'value': self.model.symbols[n]})

        @rule(n=cname, v=st.integers(min_value=1, max_value=40))
        def const(self, n, v):
            self.do({'op': 'const', 'name': n, 'value': v})

        @rule(data=st.data(), d=st.sampled_from(['.byte', '.byte', '.2byte']))
        def use(self, data, d):
            self.do({'op': 'use', 'text': self.draw_expr(data), 'directive': d})

        @rule(data=st.data())
        def use2(self, data):
            self.do({'op': 'use', 'text': f'{self.draw_expr(data)}, {self.draw_expr(data)}', 'directive': '.byte'})

        @rule(e=expr(), d=st.sampled_from(['.byte', '.2byte']))
        def use_blind(self, e, d):
            self.do({'op': 'use', 'text': e, 'directive': d})

        @rule(n=name, sv=st.sampled_from(['"ab"', '"a\\n"', '"x\\ty"', '"q\\\\z"', '"\\x41b"', '"A,B"', '"1 2"', '"a  b"',
                                             '"x\ty"', '"p   q  r"']))
        def define_string(self, n, sv):
            self.do({'op': 'define', 'name': n, 'value': sv})

        @rule(data=st.data(), d=st.sampled_from(['.cstr', '.byte', '.asciiz']))
        def use_string(self, data, d):
            strs = sorted(k for k, v in self.model.symbols.items() if '"' in v or any(
                '"' in self.model.symbols.get(w, '') for w in WORD.findall(v)))
            if strs:
                self.do({'op': 'use_str', 'name': data.draw(st.sampled_from(strs)), 'directive': d})

        @rule(data=st.data(), d=st.sampled_from(['.cstr', '.byte']), pre=st.sampled_from(['', 'v ', 'x=']),
              post=st.sampled_from(['', '.', ' end']))
        def use_quoted(self, data, d, pre, post):
            cands = sorted(k for k, v in self.model.symbols.items() if v and '"' not in v)
            if cands:
                self.do({'op': 'use_quoted', 'inner': f'{pre}{data.draw(st.sampled_from(cands))}{post}', 'directive': d})

        @rule(data=st.data(), v=st.integers(min_value=1, max_value=30), w=st.integers(min_value=1, max_value=30))
        def idiom_late_definition(self, data, v, w):
            """#define X Y+1 while Y is only a constant; use X; #define Y w; use X again (and Y alone)"""
            m = self.model
            ys = [y for y in ('BA', 'AB1') if y not in m.symbols]
            xs = [x for x in NAMES if x not in m.symbols and x not in ('BA', 'AB1')]
            if not ys or not xs:
                return
            y = data.draw(st.sampled_from(ys))
            x = data.draw(st.sampled_from(xs))
            if y not in m.consts:
                self.do({'op': 'const', 'name': y, 'value': v})
            self.do({'op': 'define', 'name': x, 'value': f'{y}+1'})
            self.do({'op': 'use', 'text': x, 'directive': '.byte'})
            self.do({'op': 'define', 'name': y, 'value': str(w)})
            self.do({'op': 'use', 'text': x, 'directive': '.byte'})
            self.do({'op': 'use', 'text': f'{y} + {x}', 'directive': '.byte'})

        @rule(n=st.one_of(name, st.sampled_from(['NOP', 'Nop', 'LDI', 'EMIT'])),
              body=st.sampled_from(['.byte 7', 'ldi 5', 'nop', '.byte AB', 'ldi $2A', 'ldi AB + 1']),
              lead=st.sampled_from(['', '  ', '\t']))
        def idiom_statement_symbol(self, n, body, lead):
            """#define S <whole statement> / S   (S alone on its line)"""
            if n not in self.model.symbols:
                self.do({'op': 'define', 'name': n, 'value': body}, check=False)
            self.do({'op': 'use_stmt', 'name': n, 'lead': lead})

        @rule(n=st.one_of(name, st.just('ENTRY')), k=st.integers(min_value=0, max_value=3))
        def idiom_label_symbol(self, n, k):
            """#define S lbl<k> / S:  / .2byte lbl<k>   (S names the label)"""
            if n not in self.model.symbols:
                self.do({'op': 'define', 'name': n, 'value': f'lbl{k}'}, check=False)
            before = len(self.case['ops'])
            self.do({'op': 'use_label', 'name': n}, check=False)
            if len(self.case['ops']) > before:
                self.do({'op': 'use', 'text': f'lbl{k}', 'directive': '.2byte'})
            else:
                self.do({'op': 'use_local_label', 'name': n})

        @rule(mid=st.sampled_from(['b10', 'b1', 'ADH']), top=name, v=st.integers(min_value=2, max_value=30))
        def idiom_chain_through_literal_lookalike(self, mid, top, v):
            """#define b10 7 / #define SEL b10 / .byte SEL  - a link of the chain is spelled like a numeric literal"""
            m = self.model
            if top == mid or top in m.symbols:
                return
            if mid not in m.symbols:
                self.do({'op': 'define', 'name': mid, 'value': str(v)}, check=False)
            self.do({'op': 'define', 'name': top, 'value': mid}, check=False)
            self.do({'op': 'use', 'text': top, 'directive': '.byte'})
            self.do({'op': 'use', 'text': f'{top} + 1, {mid}', 'directive': '.byte'})

        @rule(n=name, k=st.integers(min_value=4, max_value=6))
        def idiom_local_label_symbol(self, n, k):
            """#define S lbl<k> / glb: / .S: / .2byte .S   (S names a local label; `.S` is the first token of its line)"""
            if n not in self.model.symbols:
                self.do({'op': 'define', 'name': n, 'value': f'lbl{k}'}, check=False)
            self.do({'op': 'use_local_label', 'name': n})

        @rule(n=name, byte=st.sampled_from([0xB5, 0xE9, 0xD6, 0xFF]), where=st.sampled_from(['before', 'after', 'inside']))
        def legacy_code_page_identifier(self, n, byte, where):
            self.do({'op': 'use_raw', 'name': n, 'byte': byte, 'where': where})

        @rule()
        def mute(self):
            if self.model.mute < 2:
                self.do({'op': 'mute'})

        @rule(word=st.sampled_from(['#unmute', '#emit']))
        def unmute(self, word):
            if self.model.mute:
                self.do({'op': 'unmute', 'word': word})

        @rule(n=st.integers(min_value=12, max_value=26), src=st.lists(st.sampled_from(['d', 'd', 'd']), min_size=1,
                                                                   max_size=1), rev=st.booleans())
        def idiom_deep_chain(self, n, src, rev):
            """a loop-free chain of n symbols (D00 -> D01 -> ... -> literal), defined in either order, then used"""
            m = self.model
            if any(k.startswith('D0') for k in m.symbols):
                return
            names = [f'D{i:02d}' for i in range(n)]
            order = list(range(n))
            if rev:
                order.reverse()
            for i in order:
                val = names[i + 1] if i + 1 < n else '7'
                self.do({'op': 'define', 'name': names[i], 'value': val if i % 5 else f'{val}+0'}, check=False)
            self.do({'op': 'use', 'text': names[0], 'directive': '.byte'})
            self.do({'op': 'use', 'text': f'{names[n // 2]} + {names[0]}', 'directive': '.byte'})

        @rule(data=st.data())
        def idiom_case_twins(self, data):
            """a symbol and an identifier that differs from it only by letter case on the same line"""
            m = self.model
            pairs = [('AB', 'ab'), ('AB', 'aB'), ('CC', 'Cc'), ('BA', 'ba')]
            ok = [(s_, c) for s_, c in pairs if c not in m.symbols]
            if not ok:
                return
            s_, c = data.draw(st.sampled_from(ok))
            if c not in m.consts:
                self.do({'op': 'const', 'name': c, 'value': data.draw(st.integers(min_value=1, max_value=40))})
            if s_ not in m.symbols:
                self.do({'op': 'define', 'name': s_, 'value': data.draw(lit)})
            self.do({'op': 'use', 'text': f'{s_} + {c}', 'directive': '.byte'})
            self.do({'op': 'use', 'text': f'{c}, {s_}', 'directive': '.byte'})

        @rule(data=st.data())
        def idiom_late_cycle(self, data):
            """a cycle that is closed only after one member was already used"""
            m = self.model
            free = [x for x in NAMES if x not in m.symbols and x not in m.consts]
            if len(free) < 2:
                return
            a, b = free[0], free[1]
            self.do({'op': 'const', 'name': b, 'value': 4}) if b in CONST_NAMES else None
            self.do({'op': 'define', 'name': a, 'value': f'{b}+1'})
            if b in m.consts:
                self.do({'op': 'use', 'text': a, 'directive': '.byte'})
            self.do({'op': 'define', 'name': b, 'value': f'{a}+1'})
            self.do({'op': 'use', 'text': a, 'directive': '.byte'})

        def draw_expr(self, data):
            """an expression over what is usable right now: defined symbols, defined constants (preferring those
            whose name contains a defined symbol's name), literals"""
            m = self.model
            syms = sorted(m.symbols)
            consts = sorted(c for c in m.consts if c not in m.symbols)
            colliding = [c for c in consts if any(sname in c for sname in syms)]
            n = data.draw(st.integers(min_value=1, max_value=3))
            parts = []
            for i in range(n):
                pools = [('lit', 1)]
                if syms:
                    pools.append(('sym', 3))
                if consts:
                    pools.append(('const', 2))
                if colliding:
                    pools.append(('coll', 3))
                kind = data.draw(st.sampled_from([k for k, w in pools for _ in range(w)]))
                if kind == 'lit':
                    a = data.draw(lit)
                elif kind == 'sym':
                    a = data.draw(st.sampled_from(syms))
                elif kind == 'const':
                    a = data.draw(st.sampled_from(consts))
                else:
                    a = data.draw(st.sampled_from(colliding))
                if i:
                    parts.append(data.draw(st.sampled_from([' + ', '+', ' * ', '*'])))
                parts.append(a)
            e = ''.join(parts)
            if n > 1 and data.draw(st.booleans()):
                e = f'({e})'
            empties = [k for k in syms if self.expands_to_nothing(k)]
            if empties and data.draw(st.integers(min_value=0, max_value=3)) == 0:
                # a symbol with an empty replacement text simply disappears from the line
                e = f'{data.draw(st.sampled_from(empties))} {e}'
            return e

        def expands_to_nothing(self, k):
            try:
                return self.model.expand(k).strip() == ''
            except Reject:
                return False

        def teardown(self):
            if self.model is not None:
                m = self.model
                graph = tuple(sorted((n, tuple(WORD.findall(v)), m.source[n]) for n, v in m.symbols.items()))
                box['paths'].add(H((graph, tuple(m.shape))) & 0xFFFFFFFFFFFF)
                if m.probes.get('use_mentions_symbol'):
                    box['nontrivial'] += 1
                for k, v in m.probes.items():
                    box['probes'][k] = box['probes'].get(k, 0) + v
                if m.probes.get('use_mentions_symbol', 0) >= 2 and len(box['xproc']) < 3:
                    box['xproc'].append(copy.deepcopy(self.case))
                if len(box['samples']) < 1 and m.probes.get('use_mentions_symbol', 0) >= 2:
                    box['samples'].append({'history_lines': list(self.lines), 'pre_symbols': self.case['pre_symbols'],
                                           'cli_symbols': self.case['cli_symbols'], 'expected_bytes': m.out[:24]})
    return Machine


def explore(subseed, cfg):
    import random
    import hypothesis
    from hypothesis import settings, HealthCheck, Phase
    from hypothesis.stateful import run_state_machine_as_test
    stats = {'runs': 0, 'evaluations': 0, 'steps': 0, 'histories': 0, 'harness': []}
    box = {'paths': set(), 'probes': {}, 'samples': [], 'nontrivial': 0, 'xproc': []}
    out = {'evaluations': 0, 'runs': 0, 'steps': 0, 'probes': {}, 'faults_fired': {}, 'discarded': {},
           'violations': [], 'samples': [], 'distinct': set(), 'harness': [], 'sim_clock_s': 0.0}
    # one-shot collision probes between the two up-front sources
    rnd = random.Random(subseed)
    n = rnd.choice(NAMES)
    n2 = rnd.choice([x for x in NAMES if x != n])
    dupform = rnd.choice([[f'{n}=3', f'{n}=4'], [f'{n}=3', f'{n}=3'], [n, f'{n}=1'], [f'{n}=1', n], [n, n],
                          [f'{n}=3', f'{n2}=1', f'{n}=4']])
    for kind, case in (
            ('cli-vs-isa', {'pre_symbols': {n: '1'}, 'cli_symbols': {n: '2'}, 'ops': [], 'kind': 'init-collision'}),
            ('cli-vs-isa-same', {'pre_symbols': {n: '7'}, 'cli_symbols': {n: '7'}, 'ops': [], 'kind': 'init-collision'}),
            ('cli-vs-isa-novalue', {'pre_symbols': {n: ''}, 'cli_symbols': {n: ''}, 'ops': [], 'kind': 'init-collision'}),
            ('cli-vs-cli', {'pre_symbols': {}, 'cli_symbols': {}, 'cli_raw': dupform, 'ops': [],
                            'kind': 'init-collision'}),):
        v, r = init_probe_violations(case)
        stats['runs'] += 1
        stats['evaluations'] += 1
        box['probes']['redefinition_cli_vs_isa'] = box['probes'].get('redefinition_cli_vs_isa', 0) + 1
        for c in v:
            out['violations'].append({'case': case, 'class': c, 'group': 'init:' + kind})
    Machine = make_machine(stats, box)
    st_ = settings(max_examples=cfg.get('examples', 14), stateful_step_count=cfg.get('steps', 20), database=None,
                   deadline=None, report_multiple_bugs=False, suppress_health_check=list(HealthCheck),
                   phases=[Phase.generate], derandomize=False, print_blob=False)
    try:
        run_state_machine_as_test(hypothesis.seed(subseed & 0xFFFFFFFFFFFF)(Machine), settings=st_)
    except Violation as e:
        for c in e.classes:
            out['violations'].append({'case': e.case, 'class': c, 'group': 'history'})
    except BaseException as e:
        cause = e
        seen = 0
        while cause is not None and not isinstance(cause, Violation) and seen < 6:
            cause = cause.__cause__ or cause.__context__
            seen += 1
        if isinstance(cause, Violation):
            for c in cause.classes:
                out['violations'].append({'case': cause.case, 'class': c, 'group': 'history'})
        else:
            out['harness'].append(f'hypothesis: {type(e).__name__}: {str(e)[:200]}')
    # cross-process tier: a few complete histories are assembled by real interpreters (real hash seeds, python -O)
    if not out['violations']:
        for i, hc in enumerate(box['xproc']):
            for hs in ((subseed + i) % 4001, (subseed * 7 + i) % 4001):
                c = copy.deepcopy(hc)
                c['xproc'] = {'pyopt': [0, 1, 2][i % 3], 'hashseed': hs}
                try:
                    res = check_case(c)
                except Exception as e:
                    out['harness'].append(f'xproc: {type(e).__name__}: {e}')
                    continue
                stats['runs'] += 1
                stats['evaluations'] += 1
                box['probes']['xproc_runs'] = box['probes'].get('xproc_runs', 0) + 1
                for vv in res['violations']:
                    out['violations'].append({'case': c, 'class': vv, 'group': 'xproc'})
    out['evaluations'] = stats['evaluations']
    out['runs'] = stats['runs']
    out['steps'] = stats['steps']
    out['harness'] += stats['harness'][:3]
    out['probes'] = dict(box['probes'])
    out['probes']['histories'] = stats['histories']
    out['probes']['histories_using_a_symbol'] = box['nontrivial']
    out['samples'] = box['samples']
    out['distinct'] = sorted(box['paths'])
    return out
