#!/venv/bin/python
"""Reach measurement: which lines of bespokeasm do the simulated runs of the checks execute?

usage: PYTHONPATH=/verif:/repo/src tools_coverage.py [ids...]   (runs a sample of sub-seeds of each check with
VERIF_COVERAGE=1 and prints, per source file, the executable lines never executed by any simulated run)
"""
import importlib, os, sys, json, collections
os.environ['VERIF_COVERAGE'] = '1'
sys.path.insert(0, os.path.dirname(os.path.abspath(__file__)))
from sim import child, runner

SAMPLE = {'C14': 24, 'C15': 60, 'C17': 80, 'C20': 40, 'C08': 12, 'C09': 12}


def executable_lines(path):
    src = open(path).read()
    code = compile(src, path, 'exec')
    lines = set()
    todo = [code]
    while todo:
        c = todo.pop()
        for _, _, ln in c.co_lines():
            if ln:
                lines.add(ln)
        todo += [k for k in c.co_consts if hasattr(k, 'co_lines')]
    return lines


def explore_with_cov(mod_name, subseed, cfg):
    acc = set()
    import sim.child as C
    real = C.run_world

    def rw(world, wall_timeout=None):
        r = real(world, wall_timeout)
        acc.update(r.pop('covered', ()))
        return r
    C.run_world = rw
    try:
        mod = importlib.import_module(mod_name)
        mod.explore(subseed, cfg)
    finally:
        C.run_world = real
    return acc


def main():
    ids = sys.argv[1:] or sorted(SAMPLE)
    child.preload()
    orig = child.run_world
    covered = collections.defaultdict(set)

    # collect in workers: wrap run_world so that results' 'covered' sets are merged into a per-task accumulator
    import concurrent.futures as cf, multiprocessing
    ctx = multiprocessing.get_context('fork')
    for pid in ids:
        mod = importlib.import_module('props.' + pid.lower())
        cfg = dict(mod.TIERS['quick'])
        with cf.ProcessPoolExecutor(max_workers=int(os.environ.get('VERIF_WORKERS', 8)), mp_context=ctx) as ex:
            futs = [ex.submit(explore_with_cov, mod.__name__, 20261003 * (1 << 32) + i, cfg) for i in range(SAMPLE[pid])]
            for f in futs:
                for fn, ln in f.result():
                    covered[fn].add(ln)
        print(f'{pid}: cumulative files {len(covered)}', flush=True)
    src = os.path.realpath(child.REPO_SRC)
    total_exec = total_cov = 0
    report = {}
    for dp, dn, fns in os.walk(os.path.join(src, 'bespokeasm')):
        for fn in fns:
            if fn.endswith('.py'):
                p = os.path.join(dp, fn)
                rel = p[len(src) + 1:]
                ex_lines = executable_lines(p)
                cov = covered.get(rel, set()) & ex_lines
                # module-level lines execute at import in the parent (before the child starts): count them as reached
                missed = sorted(ex_lines - cov)
                total_exec += len(ex_lines)
                total_cov += len(cov)
                report[rel] = {'executable': len(ex_lines), 'reached_in_child': len(cov), 'missed': missed}
    print(f'TOTAL executable={total_exec} reached_in_child={total_cov}')
    for rel, r in sorted(report.items(), key=lambda kv: -len(kv[1]['missed'])):
        if r['missed']:
            print(f'{rel}: {r["reached_in_child"]}/{r["executable"]} missed {r["missed"][:80]}')
    json.dump(report, open('/tmp/verif_coverage.json', 'w'))


if __name__ == '__main__':
    main()
