"""Shared machinery of the checks: seeded sub-seed pool, minimisation, replay files, evidence, known findings.

A property module (props/cXX.py) provides:
  ID, LEVEL ('exploration' | 'fault_enumeration')
  tiers: {'quick': {...}, 'thorough': {...}}     (at least 'subseeds')
  explore(subseed, tier_cfg) -> dict             (runs in a worker process; see merge())
  check_case(case) -> {'violations': [class,...], 'observed': {...}}     (pure function of the case + /repo)
  SHRINK_LISTS: names of list-valued case fields that may be delta-debugged
  RULE, ASSUMPTIONS, COMPONENTS (strings / lists for evidence)
"""
import concurrent.futures as cf
import faulthandler
import hashlib
import json
import multiprocessing
import os
import sys
import time

VERIF = os.path.dirname(os.path.dirname(os.path.abspath(__file__)))
KNOWN_FILE = os.path.join(VERIF, 'known_findings.json')
_real_time = time.time


def digest(obj) -> str:
    return hashlib.sha256(json.dumps(obj, sort_keys=True, default=str).encode()).hexdigest()[:16]


def H(obj) -> int:
    """stable 48-bit digest (independent of PYTHONHASHSEED, unlike hash())"""
    return int(hashlib.blake2b(repr(obj).encode('utf-8', 'replace'), digest_size=6).hexdigest(), 16)


def workers_default():
    return int(os.environ.get('VERIF_WORKERS', '0')) or min(16, os.cpu_count() or 4)


def _worker_init():
    faulthandler.enable()
    from sim import child
    child.preload()


def _run_task(args):
    mod_name, subseed, cfg = args
    import importlib
    mod = importlib.import_module(mod_name)
    faulthandler.dump_traceback_later(cfg.get('task_timeout', 600), exit=True)
    try:
        res = mod.explore(subseed, cfg)
    finally:
        faulthandler.cancel_dump_traceback_later()
    res['subseed'] = subseed
    res['digest'] = result_digest(res)
    return res


def result_digest(res):
    """digest of everything a sub-seed's exploration decided (not of timing or step counts, which may legitimately
    differ with the interpreter's hash seed through sets the simulator does not control)"""
    core = {'evaluations': res.get('evaluations'), 'runs': res.get('runs'),
            'violations': sorted((v['class'], str(v.get('group'))) for v in res.get('violations', [])),
            'probes': sorted(res.get('probes', {}).items()), 'faults_fired': sorted(res.get('faults_fired', {}).items()),
            'discarded': sorted(res.get('discarded', {}).items()), 'distinct': list(res.get('distinct', [])),
            'harness': [str(h)[:80] for h in res.get('harness', [])]}
    return digest(core)


def pool_map(mod_name, subseeds, cfg, workers=None, wall_budget=None):
    """Run explore(subseed) for every sub-seed; results are returned in sub-seed order (independent of the
    worker count).  If wall_budget (s) is exceeded, remaining sub-seeds are not started (reported as skipped)."""
    workers = workers or workers_default()
    t0 = _real_time()
    results = {}
    skipped = []
    errors = []
    ctx = multiprocessing.get_context('fork')
    with cf.ProcessPoolExecutor(max_workers=workers, mp_context=ctx, initializer=_worker_init) as ex:
        pending = {}
        it = iter(subseeds)
        exhausted = False

        def submit_more():
            nonlocal exhausted
            while not exhausted and len(pending) < workers * 2:
                if wall_budget is not None and _real_time() - t0 > wall_budget:
                    skipped.extend(list(it))
                    exhausted = True
                    return
                try:
                    s = next(it)
                except StopIteration:
                    exhausted = True
                    return
                pending[ex.submit(_run_task, (mod_name, s, cfg))] = s
        submit_more()
        while pending:
            done, _ = cf.wait(list(pending), return_when=cf.FIRST_COMPLETED)
            for fut in done:
                s = pending.pop(fut)
                try:
                    results[s] = fut.result()
                except BaseException as e:       # worker died or raised: harness error, never a verdict
                    errors.append((s, f'{type(e).__name__}: {e}'))
            try:
                submit_more()
            except BaseException as e:
                errors.append((-1, f'submit: {type(e).__name__}: {e}'))
                break
    ordered = [results[s] for s in subseeds if s in results]
    return ordered, skipped, errors, _real_time() - t0


# -----------------------------------------------------------------------------------------------
# minimisation (delta debugging over designated list fields of a case)
# -----------------------------------------------------------------------------------------------
def _get(case, path):
    cur = case
    for p in path:
        cur = cur[p]
    return cur


def _set(case, path, val):
    cur = case
    for p in path[:-1]:
        cur = cur[p]
    cur[path[-1]] = val


def minimise(mod, case, vclass, max_runs=400, max_wall=None):
    """Shrink `case` while check_case still reports `vclass`. Returns (case, runs used).  Bounded by a number of
    re-executions and by wall time (a history-driven case re-runs every prefix, so one re-execution can be slow)."""
    import copy
    runs = [0]
    t_end = _real_time() + (max_wall or float(os.environ.get('VERIF_MINIMISE_WALL', '150')))

    def still(c):
        if runs[0] >= max_runs or _real_time() > t_end:
            return False
        runs[0] += 1
        try:
            r = mod.check_case(c)
        except Exception:
            return False
        return vclass in r['violations']

    best = copy.deepcopy(case)
    for path in mod.shrink_paths(best):
        lst = list(_get(best, path))
        n = 2
        while len(lst) >= 1 and runs[0] < max_runs and _real_time() < t_end:
            chunk = max(1, len(lst) // n)
            reduced = False
            for i in range(0, len(lst), chunk):
                cand = lst[:i] + lst[i + chunk:]
                c2 = copy.deepcopy(best)
                _set(c2, path, cand)
                if still(c2):
                    best, lst = c2, cand
                    n = max(n - 1, 2)
                    reduced = True
                    break
            if not reduced:
                if chunk == 1:
                    break
                n = min(len(lst), n * 2)
    if hasattr(mod, 'simplify'):
        for c2 in mod.simplify(best):
            if still(c2):
                best = c2
    return best, runs[0]


def out_dir(kind):
    """evidence/ and replays/ live in /verif unless VERIF_EVIDENCE_DIR redirects them (used when the checks are
    pointed at a scratch tree with a seeded change, so that the committed evidence is never overwritten)"""
    base = os.environ.get('VERIF_EVIDENCE_DIR')
    d = os.path.join(base, kind) if base else os.path.join(VERIF, kind)
    os.makedirs(d, exist_ok=True)
    return d


def write_replay(mod, case, vclass, observed):
    body = {'property': mod.ID, 'violation_class': vclass, 'case': case, 'observed': observed}
    name = f'{mod.ID}-{digest(body)}.json'
    path = os.path.join(out_dir('replays'), name)
    with open(path, 'w') as f:
        json.dump(body, f, indent=1, sort_keys=True, default=str)
    return path


def replay_file(mod, path):
    """Re-execute one replay file. Returns (reproduced: bool, result)"""
    with open(path) as f:
        body = json.load(f)
    r = mod.check_case(body['case'])
    return body['violation_class'] in r['violations'], r, body


# -----------------------------------------------------------------------------------------------
# known findings
# -----------------------------------------------------------------------------------------------
def _witness_side(mod_name, known, q):
    import importlib
    out = {}
    try:
        mod = importlib.import_module(mod_name)
        from sim import child
        child.preload()
        for e in known:
            with open(os.path.join(VERIF, e['witness'])) as f:
                body = json.load(f)
            r = mod.check_case(body['case'])
            r.pop('result', None)
            out[e['id']] = (body, r)
    finally:
        q.put(out)


def load_known(pid):
    if not os.path.exists(KNOWN_FILE):
        return []
    with open(KNOWN_FILE) as f:
        data = json.load(f)
    return [e for e in data.get('findings', []) if e.get('property') == pid]


# -----------------------------------------------------------------------------------------------
# evidence
# -----------------------------------------------------------------------------------------------
def write_evidence(mod, tier, seed, wall_s, coverage, violations, assumptions=None):
    ev = {
        'property_id': mod.ID,
        'tier': tier,
        'seed': int(seed),
        'level': mod.LEVEL,
        'coverage': coverage,
        'assumptions': assumptions or getattr(mod, 'ASSUMPTIONS', []),
        'wall_s': round(wall_s, 2),
        'violations': int(violations),
    }
    path = os.path.join(out_dir('evidence'), f'{mod.ID}.json')
    tmp = path + '.tmp'
    with open(tmp, 'w') as f:
        json.dump(ev, f, indent=1, default=str)
        f.write('\n')
    os.replace(tmp, path)
    return path


def merge_counts(dst, src):
    for k, v in src.items():
        dst[k] = dst.get(k, 0) + v
    return dst


def main_check(mod, tier, seed, replay=None):
    """Generic driver: explore, attribute to known findings, minimise, confirm replay, report, write evidence.
    Returns the process exit code."""
    from sim import child
    child.preload()
    if replay:
        ok, r, body = replay_file(mod, replay)
        print(json.dumps({'replayed': replay, 'expected_class': body['violation_class'],
                          'violations_now': r['violations'], 'observed': r['observed']}, indent=1, default=str))
        if ok:
            print(f'VIOLATION property={mod.ID} replay={replay}')
            return 1
        print(f'replay of {replay}: violation class {body["violation_class"]} NOT reproduced on this tree')
        return 0

    cfg = dict(mod.TIERS[tier])
    cfg['tier'] = tier
    n = int(os.environ.get('VERIF_SUBSEEDS', cfg['subseeds']))
    subseeds = [seed * (1 << 32) + i for i in range(n)]
    t0 = _real_time()
    # witnesses of known findings are replayed in a side process while the pool explores
    known = load_known(mod.ID)
    ctx = multiprocessing.get_context('fork')
    wq = ctx.Queue()
    wproc = ctx.Process(target=_witness_side, args=(mod.__name__, known, wq))
    wproc.start()
    results, skipped, errors, _ = pool_map(mod.__name__, subseeds, cfg, wall_budget=cfg.get('wall_budget'))
    try:
        witness_results = wq.get(timeout=600)
    except Exception as e:
        witness_results = {}
        errors.append((-2, f'witness side process: {type(e).__name__}: {e}'))
    wproc.join(timeout=30)
    agg = mod.aggregate(results) if hasattr(mod, 'aggregate') else default_aggregate(results)
    harness_problems = list(errors)
    for r in results:
        harness_problems.extend((r['subseed'], h) for h in r.get('harness', []))

    # --- known findings: replay each witness, print KNOWN-FINDING if it still fails ----------------
    known_lines = []
    exit_code = 0
    for e in known:
        if e['id'] not in witness_results:
            harness_problems.append((-2, f'witness {e["id"]} was not replayed'))
            continue
        body, r = witness_results[e['id']]
        still = body['violation_class'] in r['violations']
        if e.get('status') == 'open':
            if still:
                known_lines.append(f'KNOWN-FINDING: property={mod.ID} {e["id"]}: {e["what"]}')
            else:
                print(f'note: open finding {e["id"]} no longer reproduces (witness {e["witness"]})')
        else:   # fixed: suppresses nothing; a return of the failure is a violation again
            if still:
                path = write_replay(mod, body['case'], body['violation_class'], r['observed'])
                print(f'VIOLATION property={mod.ID} replay={path}')
                print(f'  (regression of fixed finding {e["id"]}: {e["what"]})')
                exit_code = 1
                agg['violations_reported'] = agg.get('violations_reported', 0) + 1
    # --- violations found by exploration --------------------------------------------------------------
    seen_classes = {}
    reported = 0
    attributed = {}
    for v in agg.pop('violation_cases', []):
        case, vclass = v['case'], v['class']
        # attribution to an open finding: the finding's neutraliser must make this violation disappear
        owner = None
        for e in known:
            if e.get('status') != 'open':
                continue
            if hasattr(mod, 'attributable') and mod.attributable(case, vclass, e):
                owner = e
                break
        if owner is not None:
            attributed[owner['id']] = attributed.get(owner['id'], 0) + 1
            continue
        key = (vclass, (v.get('group') or '').split(':')[0])
        if key in seen_classes:
            seen_classes[key] += 1
            continue
        seen_classes[key] = 1
        if reported >= int(os.environ.get('VERIF_MAX_REPORTS', 6)):
            continue
        small, used = minimise(mod, case, vclass, max_runs=cfg.get('min_runs', 300))
        r = mod.check_case(small)
        if vclass not in r['violations']:
            r0 = mod.check_case(case)
            if vclass in r0['violations']:
                small, r = case, r0
            else:
                harness_problems.append((v.get('subseed'), f'violation {vclass} did not replay'))
                continue
        path = write_replay(mod, small, vclass, r['observed'])
        ok, _, _ = replay_file(mod, path)
        if not ok:
            harness_problems.append((v.get('subseed'), f'replay file {path} did not reproduce'))
            continue
        print(f'VIOLATION property={mod.ID} replay={path}')
        print(f'  class={vclass} subseed={v.get("subseed")} minimised_with={used}_runs detail={json.dumps(r["observed"], default=str)[:400]}')
        reported += 1
        exit_code = 1
    for line in known_lines:
        print(line)
    wall = _real_time() - t0
    cov = agg
    cov['known_findings_seen'] = [ln for ln in known_lines]
    cov['attributed_to_known_findings'] = attributed
    cov['violation_classes'] = {f'{k[0]}|{k[1]}': n for k, n in seen_classes.items()}
    cov['subseeds_done'] = len(results)
    cov['subseeds_skipped'] = len(skipped)
    cov['harness_problems'] = [str(h)[:300] for h in harness_problems[:20]]
    cov['workers'] = workers_default()
    runs = cov.get('simulated_runs', cov.get('evaluations', 0))
    cov['runs_per_hour'] = int(runs / max(wall, 1e-6) * 3600)
    cov['subseeds_per_hour'] = int(len(results) / max(wall, 1e-6) * 3600)
    cov['components'] = getattr(mod, 'COMPONENTS', {})
    cov['rule'] = mod.RULE
    write_evidence(mod, tier, seed, wall, cov, sum(seen_classes.values()))
    print(f'[{mod.ID}] tier={tier} seed={seed} subseeds={len(results)} runs={runs} wall={wall:.1f}s '
          f'violation_classes={len(seen_classes)} attributed={attributed} harness_problems={len(harness_problems)}')
    if harness_problems and exit_code == 0:
        for h in harness_problems[:10]:
            print(f'HARNESS-ERROR {h}')
        return 2
    if not results:
        print('HARNESS-ERROR no sub-seed completed')
        return 2
    return exit_code


def default_aggregate(results):
    agg = {'evaluations': 0, 'simulated_runs': 0, 'sim_steps': 0, 'probes': {}, 'faults_fired': {},
           'faults_fired_faultfree_runs': 0, 'discarded': {}, 'violation_cases': [], 'samples': [],
           'distinct': set(), 'sim_clock_s': 0.0}
    for r in results:
        agg['evaluations'] += r.get('evaluations', 0)
        agg['simulated_runs'] += r.get('runs', 0)
        agg['sim_steps'] += r.get('steps', 0)
        agg['sim_clock_s'] += r.get('sim_clock_s', 0.0)
        merge_counts(agg['probes'], r.get('probes', {}))
        merge_counts(agg['faults_fired'], r.get('faults_fired', {}))
        merge_counts(agg['discarded'], r.get('discarded', {}))
        for v in r.get('violations', []):
            v['subseed'] = r['subseed']
            agg['violation_cases'].append(v)
        if len(agg['samples']) < 4 and r.get('samples'):
            agg['samples'].append(r['samples'][0])
        agg['distinct'].update(r.get('distinct', []))
    agg['distinct_nontrivial'] = len(agg['distinct'])
    del agg['distinct']
    return agg
