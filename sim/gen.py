"""Seeded generators: accepted ISA definitions and programs that are valid for them by construction.

Everything is drawn from the `random.Random` passed in; nothing here reads a clock or the environment.
Identifiers stay <= 8 characters and numeric literals < 2**16 (see DESIGN.md: regex blow-up hazard).
"""
import copy
import json

REG_POOL = ['a', 'b', 'x', 'ab', 'sp', 'a1', 'ix', 'mar', 'r0', 'r1', 'hl', 'h']
MNEMONIC_POOL = ['nop', 'ld', 'ld.b', 'ldx', 'ldi', 'st', 'add', 'addc', 'jmp', 'j', 'mov', 'mov.w', 'inc', 'hlt',
                 'call', 'ret', 'sta', 'b_2', 'cmp', 'out', 'in', 'push', 'pop', 'swap', 'jz', 'jnz', 'st.w', 'w']
MACRO_POOL = ['push2', 'ldw', 'mov2', 'inc2', 'clr', 'jsr', 'ld.w']
ENUM_KEYS = ['aye', 'bee', 'cee', 'dee', 'zed', 'nz', 'cs', 'e0', 'e0.h', 'e0.l', 'nz.x', 'ay']
LABEL_POOL = ['start', 'loop', 'done', 'data', 'tbl', 'main', 'next', 'fin', 'buf', 'msg', 'vec', 'top', 'end1',
              'isr', 'lda', 'st1', 'ax', 'nopx', 'xnop', 'ldq']
CONST_POOL = ['K1', 'K2', 'SIZE', 'BASE', 'MASK', 'LIM', 'CNT', 'OFF', 'VAL', 'ZED']


def _yaml_dump(obj):
    import yaml
    return yaml.safe_dump(obj, sort_keys=False)


def gen_isa(rnd, *, want_macros=None, small=False, allow_numeric_enum=False):
    """Returns (isa_dict, info). info describes what the program generator may write.

    info = {
      'addr_bits', 'endian', 'registers', 'sigs': {mnemonic: [[kind,...], ...]}, 'macros': {...same...},
      'consts': {name: value}, 'zones': {name: (start,end)}, 'data': {name: (addr,size)}, 'symbols': {name: text},
      'origin', 'page_size', 'embedded', 'width': {kind: bits}
    }
    operand kinds: 'reg' (any register of set regs), 'n8', 'n16', 'm16' ([expr]), 'ir' ([reg+off]), 'en' (enum key),
                   'nb' (numeric bytecode 0..7)
    """
    addr_bits = rnd.choice([8, 12, 16, 16, 16])
    if small:
        addr_bits = 16
    fmt = rnd.choice(['json', 'json', 'yaml', 'yaml'])
    endian = rnd.choice(['big', 'little'])
    nreg = rnd.randrange(0, 7)
    registers = rnd.sample(REG_POOL, nreg)
    general = {'address_size': addr_bits, 'endian': endian, 'registers': list(registers), 'min_version': '0.3.0'}
    if rnd.random() < 0.7:
        general['identifier'] = {'name': rnd.choice(['tiny', 'sim-isa', 'my_cpu']), 'version': rnd.choice(
            ['1.0.0', '0.2.11', '2.10.3']), 'extension': rnd.choice(['asm', 's', 'tasm'])}
    origin = 0
    if rnd.random() < 0.3 and addr_bits >= 12:
        origin = rnd.choice([0, 16, 256, 0x200])
        general['origin'] = origin
    page_size = 1
    if rnd.random() < 0.4:
        page_size = rnd.choice([16, 64, 256])
        general['page_size'] = page_size
    embedded = rnd.random() < 0.25
    if embedded:
        general['allow_embedded_strings'] = True
    if rnd.random() < 0.3:
        general['cstr_terminator'] = rnd.choice([0, 3, 255])

    opsets = {}
    width = {'n8': 8, 'n16': 16, 'm16': 16, 'ir': 8, 'nb': 3, 'n4': 4, 'n12': 12}
    if registers:
        opsets['regs'] = {'operand_values': {
            f'reg_{r}': {'type': 'register', 'register': r, 'bytecode': {'value': i, 'size': 3}}
            for i, r in enumerate(registers)}}
        opsets['iregs'] = {'operand_values': {
            f'ireg_{r}': {'type': 'indirect_register', 'register': r, 'bytecode': {'value': i, 'size': 3},
                          'offset': {'size': 8, 'byte_align': True, 'max': 127, 'min': -128}}
            for i, r in enumerate(registers[:3])}}
    opsets['imm8'] = {'operand_values': {'imm8': {'type': 'numeric', 'bytecode': {'value': 7, 'size': 3},
                                                  'argument': {'size': 8, 'byte_align': True}}}}
    opsets['imm16'] = {'operand_values': {'imm16': {'type': 'numeric', 'argument': {
        'size': 16, 'byte_align': rnd.random() < 0.8, 'endian': rnd.choice(['big', 'little'])}}}}
    opsets['mem16'] = {'operand_values': {'mem16': {'type': 'indirect_numeric', 'bytecode': {'value': 6, 'size': 3},
                                                    'argument': {'size': 16, 'byte_align': True}}}}
    opsets['imm4'] = {'operand_values': {'imm4': {'type': 'numeric', 'bytecode': {'value': 5, 'size': 4},
                                                  'argument': {'size': 4, 'byte_align': False}}}}
    opsets['imm12'] = {'operand_values': {'imm12': {'type': 'numeric', 'bytecode': {'value': 2, 'size': 4},
                                                    'argument': {'size': 12, 'byte_align': False}}}}
    enum_keys = rnd.sample(ENUM_KEYS, rnd.randrange(2, 7))
    opsets['enum'] = {'operand_values': {'enum': {'type': 'enumeration', 'bytecode': {
        'size': 3, 'value_dict': {k: i for i, k in enumerate(enum_keys)}}, 'argument': {
        'size': 8, 'byte_align': True, 'value_dict': {k: 0xA0 + i for i, k in enumerate(enum_keys)}}}}}
    opsets['bits'] = {'operand_values': {'bits': {'type': 'numeric_bytecode', 'bytecode': {'size': 3, 'max': 7,
                                                                                         'min': 0}}}}
    opsets['addrs'] = {'operand_values': {'addr': {'type': 'address', 'bytecode': {'value': 5, 'size': 4},
                                                    'argument': {'size': 16, 'byte_align': True}}}}
    opsets['rels'] = {'operand_values': {'rel': {'type': 'relative_address', 'use_curly_braces': True,
                                                  'bytecode': {'value': 6, 'size': 4},
                                                  'argument': {'size': 8, 'byte_align': True, 'max': 127, 'min': -128}}}}
    if len(enum_keys) % 2:
        # both limits are optional: without them only the field width bounds the displacement
        del opsets['rels']['operand_values']['rel']['argument']['max']
        del opsets['rels']['operand_values']['rel']['argument']['min']
    opsets['defr'] = {'operand_values': {'defr': {'type': 'deferred_numeric', 'bytecode': {'value': 4, 'size': 3},
                                                   'argument': {'size': 16, 'byte_align': True}}}}
    if registers:
        r0 = registers[0]
        idx_ops = {'idx_imm': {'type': 'numeric', 'bytecode': {'value': 1, 'size': 2},
                               'argument': {'size': 8, 'byte_align': True}}}
        if len(registers) > 1:
            idx_ops['idx_reg'] = {'type': 'register', 'register': registers[1], 'bytecode': {'value': 2, 'size': 2}}
        opsets['xregs'] = {'operand_values': {'xr': {'type': 'indexed_register', 'register': r0,
                                                     'bytecode': {'value': 1, 'size': 1}, 'index_operands': idx_ops}}}
        opsets['ixregs'] = {'operand_values': {'ixr': {'type': 'indirect_indexed_register', 'register': r0,
                                                       'bytecode': {'value': 0, 'size': 1},
                                                       'index_operands': copy.deepcopy(idx_ops)}}}
        opsets['dregs'] = {'operand_values': {
            'post_inc': {'type': 'register', 'register': r0, 'bytecode': {'value': 1, 'size': 3},
                         'decorator': {'type': 'plus', 'is_prefix': False}},
            'pre_dec': {'type': 'register', 'register': r0, 'bytecode': {'value': 2, 'size': 3},
                        'decorator': {'type': 'minus_minus', 'is_prefix': True}},
            'plain': {'type': 'register', 'register': r0, 'bytecode': {'value': 3, 'size': 3}}}}
    opsets['imm_sl'] = {'operand_values': {
        'imm_short': {'type': 'numeric', 'bytecode': {'value': 2, 'size': 3}, 'argument': {'size': 8, 'byte_align': True}},
        'imm_long': {'type': 'numeric', 'bytecode': {'value': 3, 'size': 3}, 'argument': {'size': 16, 'byte_align': True}}}}
    if fmt == 'yaml':
        opsets['nenum'] = {'operand_values': {'nenum': {'type': 'numeric_enumeration', 'bytecode': {
            'size': 3, 'value_dict': {1: 1, 2: 2, 4: 3, 8: 0, 16: 5}}}}}
    # mixed set: register or immediate (exercises the precedence sort inside an operand set)
    if registers:
        mixed = dict(opsets['regs']['operand_values'])
        mixed['imm8'] = opsets['imm8']['operand_values']['imm8']
        opsets['src'] = {'operand_values': mixed}

    kinds = ['n8', 'n16', 'm16', 'en', 'nb', 'n4', 'n12', 'adr', 'rel', 'dn', 'nsl']
    if fmt == 'yaml':
        kinds.append('ne')
    if registers:
        kinds += ['reg', 'reg', 'ir', 'src', 'xr', 'ixr', 'dreg']
    kind_set = {'nsl': 'imm_sl', 'ne': 'nenum', 'adr': 'addrs', 'rel': 'rels', 'dn': 'defr', 'xr': 'xregs', 'ixr': 'ixregs', 'dreg': 'dregs',
                'n4': 'imm4', 'n12': 'imm12', 'n8': 'imm8', 'n16': 'imm16', 'm16': 'mem16', 'en': 'enum', 'nb': 'bits', 'reg': 'regs',
                'ir': 'iregs', 'src': 'src'}

    n_instr = rnd.randrange(2, 5 if small else 9)
    mnems = rnd.sample(MNEMONIC_POOL, n_instr)
    if 'nop' not in mnems:
        mnems[0] = 'nop'
    if rnd.random() < 0.2:
        # a family X.Y / X / Y (the order in which the names are tried decides whether `X.Y` is cut at `.`)
        fam = rnd.choice([['mov.w', 'mov', 'w'], ['st.w', 'st', 'w'], ['ld.b', 'ld', 'ldx']])
        mnems = fam + [m for m in mnems if m not in fam and m not in ('w',)]
    instructions = {}
    sigs = {}
    opcode = 0

    def variant(ops):
        nonlocal opcode
        opcode += 1
        # opcode field width chosen so the whole instruction is a whole number of bytes most of the time
        code_bits = sum(3 for k in ops if k in ('reg', 'ir', 'n8', 'm16', 'en', 'nb', 'src', 'dn', 'xr', 'ixr', 'dreg', 'ne', 'nsl'))
        code_bits += sum({'n4': 8, 'n12': 16, 'adr': 4, 'rel': 4}.get(k, 0) for k in ops)
        size = 8 - (code_bits % 8) if code_bits % 8 else 8
        if size < 4:
            size += 8
        v = {'bytecode': {'value': opcode % (1 << min(size, 8)), 'size': size}}
        if not ops and rnd.random() < 0.5:
            v['operands'] = {'count': 0}        # an explicit, empty operand section is legal too
        if ops:
            v['operands'] = {'count': len(ops), 'operand_sets': {'list': [kind_set[k] for k in ops]}}
            if len(ops) == 2 and rnd.random() < 0.2:
                v['operands']['operand_sets']['reverse_argument_order'] = True
        if rnd.random() < 0.1:
            v['bytecode']['suffix'] = {'value': 1, 'size': 8}
        return v

    for m in mnems:
        if m == 'nop':
            instructions[m] = {'bytecode': {'value': 0, 'size': 8}}
            sigs[m] = [[]]
            continue
        nops = rnd.choice([0, 1, 1, 1, 2, 2])
        ops = [rnd.choice(kinds) for _ in range(nops)]
        cfg = variant(ops)
        vs = [ops]
        if rnd.random() < 0.3:
            # extra variants with a different operand count (never ambiguous with the first)
            alt = [rnd.choice(kinds) for _ in range((nops + 1) % 3)]
            cfg['variants'] = [variant(alt)]
            vs.append(alt)
        if ops == ['reg'] and rnd.random() < 0.4:
            # the same mnemonic written without any operand matches a specific "empty" operand
            cfg['operands']['specific_operands'] = {'none': {'list': {'nothing': {
                'type': 'empty', 'bytecode': {'value': 7, 'size': 3}}}}}
            vs.append([])
        instructions[m] = cfg
        sigs[m] = vs

    macros = {}
    msigs = {}
    if want_macros is None:
        want_macros = rnd.random() < 0.4
    if want_macros:
        cands = [m for m in mnems if sigs[m][0] == ['n8']]
        nm = rnd.randrange(1, 3)
        for name in rnd.sample(MACRO_POOL, nm):
            if name in instructions:
                continue
            if cands:
                tgt = rnd.choice(cands)
                macros[name] = [{'operands': {'count': 1, 'specific_operands': {'imm': {'list': {'v16': {
                    'type': 'numeric', 'argument': {'size': 16, 'byte_align': True}}}}}},
                    'instructions': [f'{tgt} BYTE1(@ARG(0))', f'{tgt} BYTE0(@ARG(0))']}]
                msigs[name] = [['n16']]
            else:
                macros[name] = [{'operands': {'count': 0}, 'instructions': ['nop', 'nop']}]
                msigs[name] = [[]]
        rcands = [m for m in mnems if sigs[m][0] == ['reg']]
        if rcands and registers and 'rr2' not in instructions:
            tgt = rnd.choice(rcands)
            macros['rr2'] = [{'operands': {'count': 1, 'operand_sets': {'list': ['regs']}},
                              'instructions': [f'{tgt} @OP(0)', f'{tgt} @REG(0)']}]
            msigs['rr2'] = [['reg']]

    predefined = {}
    consts = {}
    zones = {}
    data = {}
    symbols = {}
    top = (1 << addr_bits) - 1
    if rnd.random() < 0.5:
        for n in rnd.sample(CONST_POOL, rnd.randrange(1, 4)):
            consts[n] = rnd.randrange(0, 200)
        predefined['constants'] = [{'name': n, 'value': v} for n, v in consts.items()]
    if rnd.random() < 0.35 and addr_bits >= 12:
        zs = top // 2 + 1
        zones['ZA'] = (zs, zs + 63)
        if rnd.random() < 0.5:
            zones['zone_b'] = (zs + 64, zs + 127)
        predefined['memory_zones'] = [{'name': n, 'start': s, 'end': e} for n, (s, e) in zones.items()]
        if len(consts) % 2:
            # the same zone name listed twice with different bounds (accepted: the later entry is the zone)
            predefined['memory_zones'].insert(0, {'name': 'ZA', 'start': zs + 128, 'end': zs + 191})
    if rnd.random() < 0.25 and addr_bits >= 12:
        da = top - 31
        data['pdata'] = (da, 4)
        predefined['data'] = [{'name': 'pdata', 'address': da, 'value': 0x5a, 'size': 4}]
    if rnd.random() < 0.3:
        for n in rnd.sample(['DBG', 'PLAT', 'VER2'], rnd.randrange(1, 3)):
            symbols[n] = str(rnd.randrange(0, 9))
        predefined['symbols'] = [{'name': n, 'value': v} for n, v in symbols.items()]

    special = {}
    if addr_bits >= 16 and len(instructions) % 2 == 0 and 'fjmp' not in instructions:
        # a "fast jump": only the low byte of the target is encoded and the target must lie in the page of the
        # instruction; bound to a zone that does NOT start on a page boundary. Never used by ProgGen (a valid use
        # depends on the instruction's own address); the checks place it deliberately
        zu = top // 2 + 1 + 0x280
        predefined.setdefault('memory_zones', []).append({'name': 'ZU', 'start': zu, 'end': zu + 0x1ff})
        opsets['faddr'] = {'operand_values': {'faddr': {'type': 'address', 'bytecode': {'value': 7, 'size': 4},
                                                        'argument': {'size': 8, 'byte_align': True, 'slice_lsb': True,
                                                                     'match_address_msb': True, 'memory_zone': 'ZU'}}}}
        instructions['fjmp'] = {'bytecode': {'value': 0xF, 'size': 4},
                                'operands': {'count': 1, 'operand_sets': {'list': ['faddr']}}}
        special['fjmp'] = {'zone': 'ZU', 'start': zu, 'page_bits': 8}
    isa = {'description': 'generated ISA', 'general': general, 'operand_sets': opsets, 'instructions': instructions}
    if macros:
        isa['macros'] = macros
    if predefined:
        isa['predefined'] = predefined
    info = {'addr_bits': addr_bits, 'endian': endian, 'registers': registers, 'sigs': sigs, 'macros': msigs,
            'consts': consts, 'zones': zones, 'data': data, 'symbols': symbols, 'origin': origin,
            'page_size': page_size, 'embedded': embedded, 'special': special, 'enum_keys': enum_keys, 'width': width,
            'ireg': registers[:3], 'fmt': fmt, 'name': general.get('identifier', {}).get('name', 'isa').replace(' ', '_'),
            'version': general.get('identifier', {}).get('version', '0.0.1')}
    return isa, info


def isa_text(isa, fmt):
    if fmt == 'json':
        return json.dumps(isa, indent=1)
    return _yaml_dump(isa)


# ---------------------------------------------------------------------------------------------
# program generation
# ---------------------------------------------------------------------------------------------
def num_literal(rnd, v):
    f = rnd.randrange(5)
    if f == 0:
        return f'${v:x}'
    if f == 1:
        return f'0x{v:X}'
    if f == 2 and v < 256:
        return f'%{v:b}'
    return str(v)


class ProgGen:
    """Generates a logical program as a list of statement records.

    Each record: {'text': line text, 'kind': ..., 'size': bytes (if known), 'labels': defs, ...}
    The program is valid by construction for the ISA `info` came from.
    """

    def __init__(self, rnd, info, *, max_lines=24, use_zones=True, use_org=True, ident_pool=None):
        self.rnd = rnd
        self.info = info
        self.max_lines = max_lines
        self.use_zones = use_zones
        self.use_org = use_org
        self.labels = []            # global labels defined (anywhere in the program)
        self.recent_label = None    # the last label emitted so far (a close-by target for relative addresses)
        self.consts = dict(info['consts'])
        self.lines = []
        regs = set(r.lower() for r in info['registers'])
        ops = set(info['sigs']) | set(info['macros'])
        bad = regs | ops | set(k.lower() for k in info['enum_keys']) | set(
            n.lower() for n in info['symbols']) | set(n.lower() for n in info['consts']) | {'pdata'} | set(
            z.lower() for z in info['zones'])
        self.label_pool = [x for x in (ident_pool or LABEL_POOL) if x.lower() not in bad
                           and not any(x.lower().startswith(m) or m.startswith(x.lower()) for m in ops)]
        self.const_pool = [x for x in CONST_POOL if x.lower() not in bad and x not in self.consts]

    def expr8(self, depth=0):
        rnd = self.rnd
        c = rnd.randrange(6)
        if c == 0 and self.consts:
            n = rnd.choice(sorted(self.consts))
            return n if self.consts[n] < 128 else f'LSB({n})'
        if c == 1 and self.labels:
            return f'LSB({rnd.choice(self.labels)})'
        if c == 2 and depth == 0:
            a, b = rnd.randrange(0, 100), rnd.randrange(0, 100)
            return f'{a} + {b}'
        if c == 3 and depth == 0:
            return f'({rnd.randrange(1, 15)} * {rnd.randrange(1, 15)})'
        return num_literal(rnd, rnd.randrange(0, 256))

    def expr16(self):
        rnd = self.rnd
        c = rnd.randrange(5)
        lim = min(0xFFFF, (1 << 16) - 1)
        if c == 0 and self.labels:
            return rnd.choice(self.labels)
        if c == 1 and self.labels:
            return f'{rnd.choice(self.labels)} + {rnd.randrange(0, 4)}'
        if c == 2 and self.consts:
            return rnd.choice(sorted(self.consts))
        return num_literal(rnd, rnd.randrange(0, lim))

    def operand(self, kind):
        rnd = self.rnd
        info = self.info
        if kind == 'reg':
            r = rnd.choice(info['registers'])
            return r.upper() if rnd.random() < 0.15 else r
        if kind == 'src':
            if rnd.random() < 0.5:
                return rnd.choice(info['registers'])
            return self.expr8()
        if kind == 'n8':
            return self.expr8()
        if kind == 'n4':
            return num_literal(rnd, rnd.randrange(0, 16))
        if kind == 'n12':
            return num_literal(rnd, rnd.randrange(0, 4096))
        if kind == 'n16':
            return self.expr16()
        if kind == 'm16':
            return f'[{self.expr16()}]'
        if kind == 'ir':
            r = rnd.choice(info['ireg'])
            if rnd.random() < 0.5:
                return f'[{r}]'
            return f'[{r}+{rnd.randrange(0, 100)}]'
        if kind == 'en':
            return rnd.choice(info['enum_keys'])
        if kind == 'nb':
            return str(rnd.randrange(0, 8))
        if kind == 'ne':
            return rnd.choice(['1', '2', '4', '8', '16', '2*2', '$10'])
        if kind == 'nsl':
            return num_literal(rnd, rnd.randrange(0, 200))
        if kind == 'adr':
            top = (1 << info['addr_bits']) - 1
            if self.labels and rnd.random() < 0.6:
                return rnd.choice(self.labels)
            return num_literal(rnd, rnd.randrange(0, top + 1))
        if kind == 'rel':
            # relative to something close by: the most recently emitted label, or a small literal address near origin
            if self.recent_label:
                return '{' + self.recent_label + '}'
            return '{' + str(getattr(self, 'cur_base', info['origin']) + rnd.randrange(0, 8)) + '}'
        if kind == 'dn':
            return f'[[{self.expr16()}]]'
        if kind == 'xr':
            r0 = info['registers'][0]
            if len(info['registers']) > 1 and rnd.random() < 0.4:
                return f'{r0} + {info["registers"][1]}'
            return f'{r0}+{rnd.randrange(0, 200)}'
        if kind == 'ixr':
            r0 = info['registers'][0]
            if len(info['registers']) > 1 and rnd.random() < 0.4:
                return f'[{r0} + {info["registers"][1]}]'
            return f'[{r0} + {rnd.randrange(0, 200)}]'
        if kind == 'dreg':
            r0 = info['registers'][0]
            return rnd.choice([f'{r0}+', f'--{r0}', r0])
        raise ValueError(kind)

    def statement(self):
        rnd = self.rnd
        allops = dict(self.info['sigs'])
        allops.update(self.info['macros'])
        m = rnd.choice(sorted(allops))
        ops = rnd.choice(allops[m])
        text = m.upper() if rnd.random() < 0.1 else m
        if ops:
            # any amount of blanks between the mnemonic and its operands and after the commas
            text += rnd.choice([' ', ' ', '  ', '    ']) + rnd.choice([', ', ',', ',   ']).join(self.operand(k) for k in ops)
        return text

    def data_line(self):
        rnd = self.rnd
        if self.info['embedded'] and rnd.random() < 0.2:
            return '"' + rnd.choice(['emb', 'two words', 'Z9']) + '"'
        c = rnd.randrange(8)
        if c == 0:
            return '.byte ' + ', '.join(self.expr8() for _ in range(rnd.randrange(1, 5)))
        if c == 1:
            return '.2byte ' + ', '.join(self.expr16() for _ in range(rnd.randrange(1, 3)))
        if c == 2:
            return f'.fill {rnd.randrange(1, 9)}, {self.expr8()}'
        if c == 3:
            return f'.zero {rnd.randrange(1, 6)}'
        if c == 4:
            return '.cstr "' + rnd.choice(['hi', 'ok go', 'a,b', 'Z']) + '"'
        if c == 5:
            return '.byte "' + rnd.choice(['q', 'hello', 'ab']) + '"'
        if c == 6:
            return '.4byte ' + num_literal(rnd, rnd.randrange(0, 1 << 16))
        return '.byte ' + self.expr8()

    def generate(self, n_lines=None):
        """Returns list of lines (strings). Labels are declared up-front so forward references are possible."""
        rnd = self.rnd
        n = n_lines or rnd.randrange(4, self.max_lines)
        n_labels = rnd.randrange(1, 5)
        planned = rnd.sample(self.label_pool, min(n_labels, len(self.label_pool)))
        self.labels = list(planned)       # forward references allowed
        lines = []
        pending = list(planned)
        rnd.shuffle(pending)
        local_ok = False
        locals_here = []
        file_labels = []
        # constants first (they must be defined before use in directives evaluated at parse time)
        for _ in range(rnd.randrange(0, 3)):
            if self.const_pool:
                name = self.const_pool.pop(rnd.randrange(len(self.const_pool)))
                val = rnd.randrange(0, 128)
                lines.append(rnd.choice([f'{name} = {val}', f'{name} EQU {val}', f'{name} = ${val:x}']))
                self.consts[name] = val
        if rnd.random() < 0.3:
            lines.append('; generated program')
        if rnd.random() < 0.3:
            # language requirement that the ISA satisfies
            req = rnd.choice(['', f' >= {self.info["version"]}', ' >= 0.0.1', f' == {self.info["version"]}', ' < 99.0.0'])
            lines.insert(0, f'#require "{self.info["name"]}{req}"')
        org_at = {}
        if self.use_org and self.info['addr_bits'] >= 12 and rnd.random() < 0.3:
            # forward origins far enough apart that nothing generated here can overlap
            for j, pos in enumerate(sorted(rnd.sample(range(1, max(2, n)), min(2, max(1, n - 1))))):
                org_at[pos] = self.info['origin'] + 0x400 * (j + 1)
        positions = sorted(rnd.sample(range(n), min(len(pending), n)))
        for i in range(n):
            if i in org_at:
                lines.append(f'  .org ${org_at[i]:x}')
                local_ok = False
                locals_here = []
                self.recent_label = None
                self.cur_base = org_at[i]
            if positions and i == positions[0]:
                positions.pop(0)
                lab = pending.pop()
                self.recent_label = lab
                if rnd.random() < 0.3:
                    lines.append(f'{lab}: {self.statement()}')
                else:
                    lines.append(f'{lab}:')
                local_ok = True
                locals_here = []
                continue
            c = rnd.random()
            if c < 0.5:
                lines.append('  ' + self.statement() + (' ; cmt' if rnd.random() < 0.1 else ''))
            elif c < 0.75:
                lines.append('  ' + self.data_line())
            elif c < 0.82 and local_ok:
                name = '.' + rnd.choice(['l1', 'l2', 'lp', 'x'])
                if name not in locals_here:
                    locals_here.append(name)
                    lines.append(f'{name}:')
                    lines.append(f'  .2byte {name}')
            elif c < 0.87:
                name = '_' + rnd.choice(['f1', 'f2', 'priv'])
                if name not in file_labels:
                    file_labels.append(name)
                    lines.append(f'{name}:')
                    local_ok = True
                    locals_here = []
                    lines.append(f'  .2byte {name}')
            elif c < 0.9:
                lines.append('')
            elif c < 0.93 and self.info['page_size'] > 1 and self.info['addr_bits'] >= 12:
                lines.append('  .align')
            elif c < 0.96:
                lines.append('  ' + self.statement() + ' ' + self.statement() if rnd.random() < 0.5
                             else '  ' + self.statement())
            else:
                lines.append('; ' + rnd.choice(['note', 'nop', 'todo: ld a, 5']))
        if self.use_zones and self.info['zones'] and rnd.random() < 0.3:
            z = rnd.choice(sorted(self.info['zones']))
            lines.append(f'  .org {rnd.randrange(0, 8)} "{z}"')
            for _ in range(rnd.randrange(1, 3)):
                lines.append('  .byte ' + self.expr8())
        return lines


SENTINEL = '  .byte $EE'


def simple_isa():
    """A fixed minimal ISA used by the history-driven machines (C08/C09): no operands that could interfere."""
    return {
        'description': 'marker ISA',
        'general': {'address_size': 16, 'endian': 'big', 'registers': ['a', 'b'], 'min_version': '0.3.0',
                    'identifier': {'name': 'marker', 'version': '1.0.0'}},
        'operand_sets': {'imm': {'operand_values': {'imm8': {'type': 'numeric', 'argument': {'size': 8,
                                                                                              'byte_align': True}}}}},
        'instructions': {
            'nop': {'bytecode': {'value': 0, 'size': 8}},
            'ldi': {'bytecode': {'value': 1, 'size': 8}, 'operands': {'count': 1, 'operand_sets': {'list': ['imm']}}},
        },
    }
