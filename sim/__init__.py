"""SimWorld: deterministic simulation of one `bespokeasm` CLI process per forked child.

See /verif/DESIGN.md section 2.  Nothing in here imports bespokeasm at module import time
except `child.preload()`, which the harness calls once in the parent before forking.
"""
