"""Entry point of every check:  python -m sim.cli <ID> --tier quick|thorough | --replay <file>"""
import argparse
import importlib
import os
import sys


def main():
    ap = argparse.ArgumentParser()
    ap.add_argument('target')
    ap.add_argument('--tier', default=os.environ.get('VERIF_TIER', 'quick'), choices=['quick', 'thorough'])
    ap.add_argument('--replay')
    ap.add_argument('--seed', type=int, default=None)
    args, rest = ap.parse_known_args()
    seed = args.seed if args.seed is not None else int(os.environ.get('VERIF_SEED', '20261003'))
    print(f'VERIF_SEED={seed} target={args.target} tier={args.tier}', flush=True)
    t = args.target
    if t.startswith('selftest-'):
        mod = importlib.import_module('selftest.' + t.split('-', 1)[1])
        return mod.main(seed, rest)
    mod = importlib.import_module('props.' + t.lower())
    from sim import runner
    return runner.main_check(mod, args.tier, seed, replay=args.replay)


if __name__ == '__main__':
    try:
        rc = main()
    except SystemExit:
        raise
    except BaseException as e:
        import traceback
        traceback.print_exc()
        print(f'HARNESS-ERROR {type(e).__name__}: {e}')
        rc = 2
    sys.stdout.flush()
    sys.exit(rc)
