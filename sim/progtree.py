"""Logical multi-file programs: one generation yields both the *split* form (real files with #include lines and
scoped labels) and the *in-place reference* form (one file, includes pasted, every scoped label renamed to a unique
global name, pasted chunks bracketed by `.memzone GLOBAL` / `.memzone <includer's zone>`).

A file is {'name': str, 'dir': str, 'items': [item]}, item = {'t': 'line', 's': split text, 'r': reference text}
or {'t': 'inc', 'file': File, 'zone': includer's zone at that point}.
"""
from sim import gen

GLOBALS = ['ga', 'gb', 'gc', 'gd', 'ge', 'gf', 'gg', 'gh', 'gi', 'gj', 'gk', 'gm', 'gn', 'gp', 'gq', 'gr']
LOCALS = ['.l1', '.lp', '.x9']
FILELABS = ['_f1', '_fq']
FILE_NAMES = ['a.asm', 'b.asm', 'lib.asm', 'io.asm', 'm_2.asm', 'c-d.asm', 'A.asm', 'LIB.asm', 'Io.asm']
DIRS = ['', 'inc', 'lib/sub', 'inc2']


class TreeGen:
    def __init__(self, rnd, info, *, n_files=None, scoped=True, use_zones=True, max_body=5, wrap_includes=True):
        self.rnd = rnd
        self.info = info
        self.scoped = scoped
        self.use_zones = use_zones and bool(info['zones'])
        self.max_body = max_body
        self.wrap_includes = wrap_includes
        bad = set(r.lower() for r in info['registers']) | set(info['sigs']) | set(info['macros']) | set(
            k.lower() for k in info['enum_keys'])
        self.globals_free = [g for g in GLOBALS if g not in bad]
        rnd.shuffle(self.globals_free)
        self.all_globals = []          # every global label of the program (forward references allowed)
        self.n_files = n_files if n_files is not None else rnd.randrange(1, 5)
        self.files = []
        self.pg = gen.ProgGen(rnd, info)
        self.pg.labels = []
        self.cross_defs = True
        self.cross_consts = []
        self.inert_include = None

    # -- expression helpers (emit split and reference text together) --------------------------------
    def ref16(self, ctx):
        """a 16-bit value expression; returns (split, ref)"""
        rnd = self.rnd
        c = rnd.randrange(6)
        if c == 0 and ctx['locals']:
            n = rnd.choice(sorted(ctx['locals']))
            return n, ctx['locals'][n]
        if c == 1 and ctx['filelabs']:
            n = rnd.choice(sorted(ctx['filelabs']))
            return n, ctx['filelabs'][n]
        if c <= 3 and self.planned_globals:
            g = rnd.choice(self.planned_globals)
            return g, g
        v = gen.num_literal(rnd, rnd.randrange(0, 0xFFFF))
        return v, v

    def body_line(self, ctx):
        s, r = self._body_line(ctx)
        if self.rnd.random() < 0.08:
            # comments of very different lengths (listing column widths depend on the widest one)
            cm = ' ; ' + ' '.join(['note'] * self.rnd.choice([1, 8, 20, 30]))
            s, r = s + cm, r + cm
        return s, r

    def _body_line(self, ctx):
        rnd = self.rnd
        c = rnd.randrange(7)
        if c == 0:
            a, b = self.ref16(ctx)
            return f'  .2byte {a}', f'  .2byte {b}'
        if c == 1:
            a, b = self.ref16(ctx)
            return f'  .byte LSB({a}), BYTE1({a})', f'  .byte LSB({b}), BYTE1({b})'
        if c == 2:
            s = '  ' + self.pg.data_line()
            return s, s
        if c == 3:
            s = f'  .fill {rnd.randrange(1, 5)}, {rnd.randrange(0, 256)}'
            return s, s
        if c == 5 and rnd.random() < 0.3 and self.info['addr_bits'] >= 12:
            s = f'  .align {rnd.choice([2, 4, 8, 16])}'
            return s, s
        if c == 6 and rnd.random() < 0.3 and self.cross_defs:
            s = f'  .fill LATEK, {rnd.randrange(0, 256)}'        # LATEK is defined at the very end of main
            return s, s
        if c == 4 and self.cross_defs:
            s = '  .byte ' + rnd.choice(['SYM0', 'KG0', 'SYM0 + 1', 'LSB(KG0 + SYM0)'])
            return s, s
        s = '  ' + self.pg.statement()
        return s, s

    def make_file(self, idx, name, d, is_main, private=False):
        rnd = self.rnd
        items = []
        ctx = {'locals': {}, 'filelabs': {}}
        region = 0
        zone = 'GLOBAL'
        have_region = False
        my_filelabs = {}
        if self.scoped:
            for fl in rnd.sample(FILELABS, rnd.randrange(0, 3)):
                my_filelabs[fl] = f'F{idx}{fl[1:]}'
        ctx['filelabs'] = dict(my_filelabs)     # file labels may be referenced before their definition
        pending_filelabs = list(my_filelabs)
        n_regions = rnd.randrange(1, 4)
        n_glob = rnd.randrange(1, 3) if not is_main else rnd.randrange(1, 4)
        if private:
            # a file that is only ever included from an unselected branch: its labels must be invisible to the rest
            my_globals = [f'p{idx}{c}' for c in 'abc'[:n_glob]]
            self.file_globals[idx] = []
        else:
            my_globals = [self.globals_free.pop() for _ in range(min(n_glob, len(self.globals_free)))]
            self.file_globals[idx] = my_globals
        # definitions that must cross file boundaries as if the text were pasted: a symbol and a constant defined at
        # the top of main are used by every file; every reachable included file contributes a global constant
        if is_main:
            v0, k0 = rnd.randrange(1, 200), rnd.randrange(1, 200)
            items.append({'t': 'line', 's': f'#define SYM0 {v0}', 'r': f'#define SYM0 {v0}'})
            items.append({'t': 'line', 's': f'KG0 = {k0}', 'r': f'KG0 = {k0}'})
            if rnd.random() < 0.25:
                # symbols named like words of include file names: an #include line is not subject to substitution
                for w in rnd.sample(['lib', 'io', 'asm', 'm_2', 'LIB'], 2):
                    items.append({'t': 'line', 's': f'#define {w} 7', 'r': f'#define {w} 7'})
            if rnd.random() < 0.25:
                # includes in unselected code name files that do not exist / exist twice: inert all the same
                nm = rnd.choice(['nofile9.asm', 'twice9.asm'])
                for t in ('#if 0', f'#include "{nm}"', '#endif'):
                    items.append({'t': 'line', 's': t, 'r': t})
                self.inert_include = nm
        elif not private:
            kv = rnd.randrange(1, 200)
            items.append({'t': 'line', 's': f'KG{idx} = {kv}', 'r': f'KG{idx} = {kv}'})
            self.cross_consts.append(f'KG{idx}')
        # a few lines before any label (no local labels possible here)
        for _ in range(rnd.randrange(0, 3)):
            s, r = self.body_line({'locals': {}, 'filelabs': ctx['filelabs']})
            items.append({'t': 'line', 's': s, 'r': r})
        labels_seq = list(my_globals) + pending_filelabs
        rnd.shuffle(labels_seq)
        for lab in labels_seq:
            region += 1
            if self.use_zones and rnd.random() < 0.25:
                # zone switch between regions (it resets the label scope to file scope, so never inside a region)
                zname = rnd.choice(sorted(self.info['zones']) + ['GLOBAL'])
                items.append({'t': 'line', 's': f'  .memzone {zname}', 'r': f'  .memzone {zname}'})
            if lab.startswith('_'):
                items.append({'t': 'line', 's': f'{lab}:', 'r': f'{my_filelabs[lab]}:'})
            else:
                items.append({'t': 'line', 's': f'{lab}:', 'r': f'{lab}:'})
            nbody = rnd.randrange(1, self.max_body + 1)
            planned_locals = {}
            if self.scoped and rnd.random() < 0.6:
                for ln in rnd.sample(LOCALS, rnd.randrange(1, 3)):
                    planned_locals[ln] = f'L{idx}r{region}{ln[1:]}'
            ctx['locals'] = dict(planned_locals)    # forward references to locals of the same region are legal
            to_define = list(planned_locals)
            for b in range(nbody):
                if to_define and rnd.random() < 0.6:
                    ln = to_define.pop()
                    items.append({'t': 'line', 's': f'{ln}:', 'r': f'{planned_locals[ln]}:'})
                s, r = self.body_line(ctx)
                items.append({'t': 'line', 's': s, 'r': r})
            for ln in to_define:
                items.append({'t': 'line', 's': f'{ln}:', 'r': f'{planned_locals[ln]}:'})
                items.append({'t': 'line', 's': '  .byte 0', 'r': '  .byte 0'})
        return {'name': name, 'dir': d, 'items': items, 'idx': idx}

    def generate(self):
        """Returns the main File (with nested includes)."""
        rnd = self.rnd
        for attempt in range(20):
            self.broken = False
            self.file_globals = {}
            self.cross_consts = []
            saved_free = list(self.globals_free)
            n = self.n_files
            # plan global label names first so every file may reference every global label
            self.planned_globals = list(self.globals_free[-min(len(self.globals_free), 3 * n):])
            names = ['main.asm'] + rnd.sample(FILE_NAMES, n - 1)
            dirs = [''] + [rnd.choice(DIRS) for _ in range(n - 1)]
            # decide up front how each include will be wrapped (files under an unselected wrapper are "private")
            wraps = [1.0] + [(rnd.random() if self.wrap_includes else 1.0) for _ in range(n - 1)]
            openers = [None] + [rnd.choice(['#if 0', '#if 1', '#ifdef NOSYM9', '#ifndef NOSYM9']) for _ in range(n - 1)]
            private = [w < 0.15 and o in ('#if 0', '#ifdef NOSYM9') for w, o in zip(wraps, openers)]
            files = [self.make_file(i, names[i], dirs[i], i == 0, private[i]) for i in range(n)]
            used = [g for i in range(n) for g in self.file_globals[i]]
            if self.broken:
                self.globals_free = saved_free
                continue
            # references to planned-but-undefined globals must be repaired: define leftovers in main
            self.all_globals = used
            leftovers = [g for g in self.planned_globals if g not in used]
            for g in leftovers:
                files[0]['items'].append({'t': 'line', 's': f'{g}:', 'r': f'{g}:'})
                files[0]['items'].append({'t': 'line', 's': '  .byte 1', 'r': '  .byte 1'})
                self.all_globals.append(g)
            # build the include tree: file i (i>0) is included from a random earlier file that is itself reachable
            for i in range(1, n):
                cands = [j for j in range(0, i) if not private[j]]
                parent = files[rnd.choice(cands)] if rnd.random() < 0.5 else files[0]
                lo = 2 if parent is files[0] else 0      # after main's leading definitions (see make_file)
                pos = rnd.randrange(lo, len(parent['items']) + 1)
                if self.use_zones and parent is not files[0] and rnd.random() < 0.3:
                    # the include as the very last line of a file that has just placed bytes in a zone: the included
                    # text lives in GLOBAL, so nothing follows the #include line at its own (zone) address
                    zname = rnd.choice(sorted(self.info['zones']))
                    lab = f'z{i}e'
                    parent['items'] += [{'t': 'line', 's': f'  .memzone {zname}', 'r': f'  .memzone {zname}'},
                                        {'t': 'line', 's': f'{lab}:', 'r': f'{lab}:'},
                                        {'t': 'line', 's': '  .byte $C7', 'r': '  .byte $C7'}]
                    pos = len(parent['items'])
                wrap = wraps[i]
                seq = [{'t': 'inc', 'file': files[i]}]
                if rnd.random() < 0.2:
                    seq[0]['comment'] = rnd.choice([' ; helper routines', " ; don't move", ' ; the "io" part', '   ;'])
                if rnd.random() < 0.3:
                    seq[0]['quote'] = "'"

                def ln(text):
                    return {'t': 'line', 's': text, 'r': text}
                if wrap < 0.15:
                    # include inside a conditional block (selected or not): as if pasted there
                    opener = openers[i]
                    inactive = private[i]
                    seq = [ln(opener)] + seq + [ln('#endif')]
                    leak = rnd.randrange(5)
                    if leak == 0:
                        # a symbol defined by the included file is visible afterwards iff the block was selected
                        files[i]['items'].append(ln(f'#define LK{i} 1'))
                        seq += [ln(f'#ifdef LK{i}'), ln('  .byte $99'), ln('#else'), ln('  .byte $66'), ln('#endif')]
                    elif leak == 1 and inactive:
                        # a constant / zone defined only inside the excluded file may be defined again afterwards
                        files[i]['items'].append(ln(f'KL{i} = 5'))
                        seq += [ln(f'KL{i} = 6'), ln(f'  .byte KL{i}')]
                    elif leak == 2 and inactive:
                        files[i]['items'].append(ln(f'#create_memzone ZL{i} $10 $1f'))
                        seq += [ln(f'#create_memzone ZL{i} $20 $2f')]
                    elif leak == 3:
                        files[i]['items'].append(ln('#mute'))
                        seq += [ln('  .byte $5A'), ln('#unmute'), ln('  .byte $5B')]
                elif wrap < 0.21:
                    seq = [ln('#mute')] + seq + [ln(rnd.choice(['#unmute', '#emit']))]
                elif wrap < 0.27:
                    # include at mute depth >= 2; bytes between the two #unmute lines must stay muted
                    seq = [ln('#mute'), ln('  .byte $B1'), ln('#mute')] + seq + [
                        ln('#unmute'), ln('  .byte $B2'), ln('#unmute'), ln('  .byte $B3')]
                elif wrap < 0.33:
                    # the included file changes the mute state for what follows in the includer
                    files[i]['items'].append(ln('#mute'))
                    seq = seq + [ln('  .byte $A5'), ln('#unmute')]
                elif wrap < 0.38:
                    files[i]['items'].insert(0, ln('#unmute'))
                    seq = [ln('#mute')] + seq
                if rnd.random() < 0.25:
                    # zero-length byte directives right at the file boundaries (their address ties with neighbours)
                    z = lambda: ln(rnd.choice(['  .zero 0', '  .fill 0, 1', '  .zerountil 0', '  .byte ""']))
                    where = rnd.randrange(4)
                    if where == 0:
                        seq = [z()] + seq
                    elif where == 1:
                        seq = seq + [z()]
                    elif where == 2:
                        files[i]['items'].append(z())
                    else:
                        files[i]['items'].insert(0, z())
                parent['items'][pos:pos] = seq
            files[0]['items'].append({'t': 'line', 's': 'LATEK = 2', 'r': 'LATEK = 2'})
            self._annotate_zones(files[0])
            self.files = files
            return files[0]
        raise RuntimeError('could not generate a program tree')

    def _annotate_zones(self, f):
        zone = 'GLOBAL'
        for it in f['items']:
            if it['t'] == 'line':
                s = it['s'].strip()
                if s.startswith('.memzone '):
                    zone = s.split()[1]
                elif s.startswith('.org'):
                    zone = 'GLOBAL'
            else:
                it['zone'] = zone
                self._annotate_zones(it['file'])


def relpath(f):
    return (f['dir'] + '/' if f['dir'] else '') + f['name']


def split_files(main, include_line=None):
    """{relative path: [lines]} for the split world"""
    out = {}

    def walk(f):
        if f.get('dup'):
            return          # a second include of an already materialised file (negative worlds)
        lines = []
        for it in f['items']:
            if it['t'] == 'line':
                lines.append(it['s'])
            else:
                q = it.get('quote', '"')
                lines.append(f'#include {q}{it["file"]["name"]}{q}' + it.get('comment', ''))
                walk(it['file'])
        out[relpath(f)] = lines
    walk(main)
    return out


def include_dirs(main):
    ds = []

    def walk(f):
        if f['dir'] and f['dir'] not in ds:
            ds.append(f['dir'])
        for it in f['items']:
            if it['t'] == 'inc':
                walk(it['file'])
    walk(main)
    return ds


def annotate_zones(f):
    """(re)compute, for every include item, the zone its includer has selected at that point"""
    zone = 'GLOBAL'
    for it in f['items']:
        if it['t'] == 'line':
            t = it['s'].strip()
            if t.startswith('.memzone '):
                zone = t.split()[1]
            elif t.startswith('.org'):
                zone = 'GLOBAL'
        else:
            it['zone'] = zone
            annotate_zones(it['file'])


def _zone_after(lines, zone):
    for t in lines:
        t = t.strip()
        if t.startswith('.memzone '):
            zone = t.split()[1]
        elif t.startswith('.org'):
            parts = t.split('"')
            zone = parts[1] if len(parts) >= 3 else 'GLOBAL'
    return zone


def reference_lines(main, bracket=True):
    """the in-place reference: one list of lines.

    A pasted chunk starts in GLOBAL and the includer resumes its own zone afterwards.  The `.memzone` brackets that
    express this are emitted LAZILY: only immediately in front of a line that exists in both worlds and needs another
    zone than the one the pasted text happens to be in.  A bracket is a (non-byte) line object of its own; emitted
    eagerly at the end of a chunk it can become the address-wise last object of its zone and extend the image by one
    fill byte (false alarms of soaks 777 and 779)."""
    annotate_zones(main)        # kept for the users of it['zone']
    out = []
    cur = ['GLOBAL']            # zone the reference text is in at this point

    def flat(f, want):
        # want: the zone the split world has selected at this point of file f
        for it in f['items']:
            if it['t'] == 'inc':
                flat(it['file'], 'GLOBAL')        # an included file starts in GLOBAL; the includer's zone is kept
                continue
            r = it['r']
            t = r.strip()
            if t and bracket:
                nz = _zone_after([t], None)
                if nz is not None:
                    want = nz                     # the line selects a zone itself
                    cur[0] = nz
                elif cur[0] != want:
                    out.append(f'  .memzone {want}')
                    cur[0] = want
            out.append(r)
    flat(main, 'GLOBAL')
    return out


def all_files(main):
    res = []

    def walk(f):
        res.append(f)
        for it in f['items']:
            if it['t'] == 'inc':
                walk(it['file'])
    walk(main)
    return res


def depth(main):
    def d(f):
        return 1 + max([d(it['file']) for it in f['items'] if it['t'] == 'inc'] or [0])
    return d(main)
