"""SimFS / SimEnv / SimClock / SimSet: the seams of one simulated process.

A *world* is a JSON-serialisable dict:

  files      {abs path under /sim: latin-1 text (1 char = 1 byte)}
  dirs       [abs paths]                        (parents of files are implied)
  links      {abs path: target}                 (symlinks, used for alias directories)
  argv       [...]                              (sys.argv of the simulated process, argv[0] included)
  cwd        abs path
  env        {name: value}
  encoding   default text encoding of open() without encoding=  (and of stdout)
  epoch      float, simulated clock start
  set_seed   int | None   (None: identity policy = sorted order for every SimSet)
  list_seed  int | None   (None: sorted directory listings)
  tmp_names  [names] for tempfile.mkdtemp
  faults     [{at: event index, kind: ..., k: ...}]   I/O fault plan (see SimFS._fault)
  step_budget int
  hashseed   informational (cross-process tier only)

Everything here runs inside the forked child; the parent never installs a world.
"""
import base64
import builtins
import errno
import io
import os
import stat as statmod
import sys
import random

SIM_ROOT = '/sim'
_real_set = set
_real_open = builtins.open
_real = {}          # name -> original os function


def b2s(b) -> str:
    return bytes(b).decode('latin-1')


def s2b(s) -> bytes:
    return s.encode('latin-1')


class SimFaultError(OSError):
    pass


class SimRaw(io.RawIOBase):
    """Raw file object backed by a bytearray in SimFS; faults are injected here."""

    def __init__(self, fs, path, data, readable, writable, append, fault, ev_idx):
        super().__init__()
        self._fs = fs
        self._path = path
        self._data = data
        self._r = readable
        self._w = writable
        self._pos = len(data) if append else 0
        self._append = append
        self._fault = fault or {}
        self._ev = ev_idx
        self._written = 0
        self.name = path
        self.mode = 'rb' if readable and not writable else 'wb'

    def readable(self):
        return self._r

    def writable(self):
        return self._w

    def seekable(self):
        return True

    def fileno(self):
        raise io.UnsupportedOperation('fileno')

    def isatty(self):
        return False

    def tell(self):
        return self._pos

    def seek(self, off, whence=0):
        if whence == 0:
            self._pos = off
        elif whence == 1:
            self._pos += off
        else:
            self._pos = len(self._data) + off
        if self._pos < 0:
            self._pos = 0
        return self._pos

    def truncate(self, size=None):
        if size is None:
            size = self._pos
        del self._data[size:]
        return size

    def readinto(self, b):
        if not self._r:
            raise io.UnsupportedOperation('not readable')
        f = self._fault
        if f.get('kind') == 'read_eio_after' and self._pos >= f['k']:
            self._fs.fired(f, self._ev, 'read')
            raise OSError(errno.EIO, 'Input/output error (sim)', self._path)
        limit = len(self._data)
        if f.get('kind') == 'read_eio_after':
            limit = min(limit, f['k'])
        n = max(0, min(len(b), limit - self._pos))
        if n == 0 and f.get('kind') == 'read_eio_after' and limit < len(self._data):
            self._fs.fired(f, self._ev, 'read')
            raise OSError(errno.EIO, 'Input/output error (sim)', self._path)
        b[:n] = self._data[self._pos:self._pos + n]
        self._pos += n
        return n

    def write(self, b):
        if not self._w:
            raise io.UnsupportedOperation('not writable')
        b = bytes(b)
        f = self._fault
        if self._append:
            self._pos = len(self._data)
        if f.get('kind') == 'write_enospc_after':
            room = f['k'] - self._written
            if len(b) > room:
                part = b[:max(room, 0)]
                self._put(part)
                self._fs.fired(f, self._ev, 'write')
                self._fs.log('write_fail', self._path, len(part))
                raise OSError(errno.ENOSPC, 'No space left on device (sim)', self._path)
        if f.get('kind') == 'write_short_after':
            # what a kernel does at a quota / file-size limit: the write that crosses the limit stores what fits and
            # returns a SHORT COUNT without an error; only the next write fails
            room = f['k'] - self._written
            if room <= 0:
                self._fs.fired(f, self._ev, 'write')
                raise OSError(errno.ENOSPC, 'No space left on device (sim)', self._path)
            if len(b) > room:
                self._put(b[:room])
                self._fs.fired(f, self._ev, 'short-write')
                return room
        self._put(b)
        return len(b)

    def _put(self, b):
        if not b:
            return
        end = self._pos + len(b)
        if self._pos > len(self._data):
            self._data.extend(b'\0' * (self._pos - len(self._data)))
        self._data[self._pos:end] = b
        self._pos = end
        self._written += len(b)
        self._fs.log('write', self._path, len(b))

    def close(self):
        if self.closed:
            return
        try:
            super().close()
        finally:
            self._fs.log('close', self._path, 'w' if self._w else 'r')
        f = self._fault
        if f.get('kind') == 'close_eio' and self._w:
            self._fs.fired(f, self._ev, 'close')
            raise OSError(errno.EIO, 'Input/output error on close (sim)', self._path)


class SimFS:
    def __init__(self, world):
        self.files = {p: bytearray(s2b(c)) for p, c in world.get('files', {}).items()}
        self.dirs = _real_set(['/', SIM_ROOT])
        for d in world.get('dirs', []):
            self._mkparents(d + '/x')
        for p in self.files:
            self._mkparents(p)
        self.links = dict(world.get('links', {}))
        for p in self.links:
            self._mkparents(p)
        self.cwd = world.get('cwd', SIM_ROOT)
        self._mkparents(self.cwd + '/x')
        self.encoding = world.get('encoding', 'utf-8')
        self.clock = float(world.get('epoch', 1.7e9))
        self.mtimes = {p: float(t) for p, t in world.get('mtimes', {}).items()}
        self.inodes = {}
        self.events = []
        self.faults = {int(f['at']): f for f in world.get('faults', []) if 'at' in f}
        self.fired_log = []
        self.gaps = []
        self.list_seed = world.get('list_seed')
        self.tmp_names = list(world.get('tmp_names', []))
        self.tmp_count = 0
        self.modes = dict(world.get('modes', {}))   # path -> permission bits (unreadable files etc.)
        self.uid = world.get('uid', 1000)           # 0: permission bits do not restrict (root / CAP_DAC_OVERRIDE)
        self.fds = {}
        self.resource_mtime = world.get('resource_mtime')
        self.resource_root = os.path.realpath(os.environ.get('VERIF_REPO', '/repo') + '/src')

    # ---- helpers ---------------------------------------------------------------------------
    def _mkparents(self, path):
        parts = path.split('/')[1:-1]
        cur = ''
        for p in parts:
            cur += '/' + p
            self.dirs.add(cur)

    def tick(self):
        self.clock += 0.001
        return self.clock

    def log(self, op, path, detail=None):
        self.events.append((len(self.events), op, path, detail))
        return len(self.events) - 1

    def fired(self, fault, ev_idx, where):
        self.fired_log.append({'at': ev_idx, 'kind': fault.get('kind'), 'where': where})

    def _event(self, op, path, detail=None):
        """log an event and return (index, fault-or-None) for it"""
        self.tick()
        idx = self.log(op, path, detail)
        return idx, self.faults.get(idx)

    def norm(self, path):
        path = os.fspath(path)
        if isinstance(path, bytes):
            path = path.decode('utf-8', 'surrogateescape')
        if path == '':
            # POSIX: the empty path names nothing (it is NOT the working directory)
            raise FileNotFoundError(errno.ENOENT, 'No such file or directory', path)
        raw = path
        if not path.startswith('/'):
            path = self.cwd + '/' + path
        if '/../' in path + '/':
            # POSIX resolves `link/..` physically (parent of the link's TARGET); only a purely textual API such as
            # os.path.abspath / normpath collapses it without looking
            cur = ''
            for comp in path.split('/'):
                if comp in ('', '.'):
                    continue
                if comp == '..':
                    try:
                        cur = self.resolve(cur or '/')
                    except OSError:
                        pass
                    cur = os.path.dirname(cur) if cur not in ('', '/') else ''
                else:
                    cur = cur + '/' + comp
            n = cur or '/'
        else:
            n = os.path.normpath(path)
        if (raw.endswith('/') or raw.endswith('/.')) and n != '/':
            # a trailing slash demands a directory
            try:
                r = self.resolve(n)
            except OSError:
                r = n
            if r in self.files:
                raise NotADirectoryError(errno.ENOTDIR, 'Not a directory', raw)
        return n

    def inside(self, npath):
        return npath == SIM_ROOT or npath.startswith(SIM_ROOT + '/')

    def resolve(self, npath, follow_last=True, depth=0):
        """resolve symlinks in a normalised absolute path"""
        if depth > 16:
            raise OSError(errno.ELOOP, 'Too many levels of symbolic links', npath)
        parts = [p for p in npath.split('/') if p]
        cur = ''
        for i, p in enumerate(parts):
            cur = cur + '/' + p
            last = (i == len(parts) - 1)
            if cur in self.links and (follow_last or not last):
                tgt = self.links[cur]
                if not tgt.startswith('/'):
                    tgt = os.path.dirname(cur) + '/' + tgt
                rest = '/'.join(parts[i + 1:])
                new = os.path.normpath(tgt + ('/' + rest if rest else ''))
                return self.resolve(new, follow_last, depth + 1)
        return cur or '/'

    def _ino(self, p):
        if p not in self.inodes:
            self.inodes[p] = 1000 + len(self.inodes)
        return self.inodes[p]

    def _stat_result(self, p, is_link=False):
        if is_link:
            mode = statmod.S_IFLNK | 0o777
            size = len(self.links[p])
        elif p in self.files:
            mode = statmod.S_IFREG | self.modes.get(p, 0o644)
            size = len(self.files[p])
        elif p in self.dirs:
            mode = statmod.S_IFDIR | self.modes.get(p, 0o755)
            size = 4096
        else:
            raise FileNotFoundError(errno.ENOENT, 'No such file or directory', p)
        t = self.mtimes.get(p, self.clock_base())
        ns = int(t * 1e9)
        return os.stat_result((mode, self._ino(p), 99, 1, 1000, 1000, size, int(t), int(t), int(t)),
                              {'st_atime': t, 'st_mtime': t, 'st_ctime': t, 'st_atime_ns': ns, 'st_mtime_ns': ns,
                               'st_ctime_ns': ns})

    def clock_base(self):
        return float(int(self.clock))

    # ---- os.* replacements -------------------------------------------------------------------
    def stat(self, path, *, dir_fd=None, follow_symlinks=True):
        if isinstance(path, int) or dir_fd is not None:
            return _real['stat'](path, dir_fd=dir_fd, follow_symlinks=follow_symlinks)
        n = self.norm(path)
        if not self.inside(n):
            st = _real['stat'](path, follow_symlinks=follow_symlinks)
            if self.resource_mtime is not None and n.startswith(self.resource_root):
                # installed package files carry whatever timestamp the installer gave them (epoch 0 in reproducible
                # builds / store-based distributions): simulated, because outputs must not depend on it
                t = float(self.resource_mtime)
                lst = list(st)
                lst[7] = lst[8] = lst[9] = int(t)
                ns = int(t * 1e9)
                st = os.stat_result(lst, {'st_atime': t, 'st_mtime': t, 'st_ctime': t, 'st_atime_ns': ns,
                                          'st_mtime_ns': ns, 'st_ctime_ns': ns})
            return st
        idx, f = self._event('stat' if follow_symlinks else 'lstat', n)
        if f:
            k = f.get('kind')
            if k == 'stat_eacces':
                self.fired(f, idx, 'stat')
                raise PermissionError(errno.EACCES, 'Permission denied (sim)', n)
            if k == 'stat_enoent':
                self.fired(f, idx, 'stat')
                raise FileNotFoundError(errno.ENOENT, 'No such file or directory (sim)', n)
        r = self.resolve(n, follow_last=follow_symlinks)
        res = self._stat_result(r, is_link=(not follow_symlinks and r in self.links))
        if f and f.get('kind') == 'vanish_after_stat' and r in self.files:
            self.fired(f, idx, 'stat')
            del self.files[r]
        return res

    def lstat(self, path, *, dir_fd=None):
        return self.stat(path, dir_fd=dir_fd, follow_symlinks=False)

    def access(self, path, mode, **kw):
        n = self.norm(path)
        if not self.inside(n):
            return _real['access'](path, mode, **kw)
        try:
            st = self.stat(n)
        except OSError:
            return False
        if self.uid == 0:
            return True
        perm = statmod.S_IMODE(st.st_mode)
        return not ((mode & os.R_OK and not perm & 0o400) or (mode & os.W_OK and not perm & 0o200) or (
            mode & os.X_OK and not perm & 0o100))

    def readlink(self, path, **kw):
        n = self.norm(path)
        if not self.inside(n):
            return _real['readlink'](path, **kw)
        r = self.resolve(n, follow_last=False)
        if r in self.links:
            return self.links[r]
        raise OSError(errno.EINVAL, 'Invalid argument', n)

    def _order(self, names, key):
        names = sorted(names)
        if self.list_seed is None:
            return names
        rnd = random.Random(f'{self.list_seed}:{key}')
        mode = rnd.randrange(4)
        if mode == 0:
            return names
        if mode == 1:
            return names[::-1]
        rnd.shuffle(names)
        return names

    def listdir(self, path='.'):
        if isinstance(path, int):
            return _real['listdir'](path)
        n = self.norm(path)
        if not self.inside(n):
            return self._order(_real['listdir'](path), n)
        idx, f = self._event('listdir', n)
        if f and f.get('kind') == 'listdir_eacces':
            self.fired(f, idx, 'listdir')
            raise PermissionError(errno.EACCES, 'Permission denied (sim)', n)
        r = self.resolve(n)
        if r in self.files:
            raise NotADirectoryError(errno.ENOTDIR, 'Not a directory', n)
        if r not in self.dirs:
            raise FileNotFoundError(errno.ENOENT, 'No such file or directory', n)
        pre = r.rstrip('/') + '/'
        names = _real_set()
        for coll in (self.files, self.dirs, self.links):
            for p in coll:
                if p.startswith(pre) and p != r:
                    names.add(p[len(pre):].split('/')[0])
        return self._order(names, r)

    def mkdir(self, path, mode=0o777, *, dir_fd=None):
        n = self.norm(path)
        if not self.inside(n):
            self.gaps.append(('mkdir-outside', n))
            raise PermissionError(errno.EACCES, 'Permission denied (outside sim)', n)
        idx, f = self._event('mkdir', n)
        if f and f.get('kind') in ('mkdir_eacces', 'mkdir_enospc'):
            self.fired(f, idx, 'mkdir')
            if f['kind'] == 'mkdir_eacces':
                raise PermissionError(errno.EACCES, 'Permission denied (sim)', n)
            raise OSError(errno.ENOSPC, 'No space left on device (sim)', n)
        r = self.resolve(n)
        if r in self.dirs or r in self.files:
            raise FileExistsError(errno.EEXIST, 'File exists', n)
        parent = os.path.dirname(r)
        if parent not in self.dirs:
            raise FileNotFoundError(errno.ENOENT, 'No such file or directory', n)
        self.dirs.add(r)
        self.mtimes[r] = self.clock

    def rmdir(self, path, **kw):
        n = self.norm(path)
        if not self.inside(n):
            raise PermissionError(errno.EACCES, 'Permission denied (outside sim)', n)
        self._event('rmdir', n)
        r = self.resolve(n)
        if self.listdir_raw(r):
            raise OSError(errno.ENOTEMPTY, 'Directory not empty', n)
        self.dirs.discard(r)

    def listdir_raw(self, r):
        pre = r.rstrip('/') + '/'
        return [p for coll in (self.files, self.dirs, self.links) for p in coll if p.startswith(pre)]

    def remove(self, path, **kw):
        n = self.norm(path)
        if not self.inside(n):
            raise PermissionError(errno.EACCES, 'Permission denied (outside sim)', n)
        self._event('remove', n)
        r = self.resolve(n, follow_last=False)
        if r in self.links:
            del self.links[r]
        elif r in self.files:
            del self.files[r]
        else:
            raise FileNotFoundError(errno.ENOENT, 'No such file or directory', n)

    def rename(self, src, dst, **kw):
        s, d = self.norm(src), self.norm(dst)
        if not (self.inside(s) and self.inside(d)):
            raise PermissionError(errno.EACCES, 'Permission denied (outside sim)', s)
        self._event('rename', s, d)
        s, d = self.resolve(s, False), self.resolve(d, False)
        if s in self.files:
            self.files[d] = self.files.pop(s)
        elif s in self.dirs:
            for coll in (self.files, self.links):
                for p in list(coll):
                    if p.startswith(s + '/'):
                        coll[d + p[len(s):]] = coll.pop(p)
            for p in list(self.dirs):
                if p == s or p.startswith(s + '/'):
                    self.dirs.discard(p)
                    self.dirs.add(d + p[len(s):])
        else:
            raise FileNotFoundError(errno.ENOENT, 'No such file or directory', s)

    def chmod(self, path, mode, **kw):
        if isinstance(path, int):
            return _real['chmod'](path, mode, **kw)
        n = self.norm(path)
        if not self.inside(n):
            raise PermissionError(errno.EACCES, 'Permission denied (outside sim)', n)
        self._event('chmod', n, mode)
        r = self.resolve(n)
        if r not in self.files and r not in self.dirs:
            raise FileNotFoundError(errno.ENOENT, 'No such file or directory', n)
        self.modes[r] = statmod.S_IMODE(mode)

    def utime(self, path, times=None, *, ns=None, **kw):
        n = self.norm(path)
        if not self.inside(n):
            raise PermissionError(errno.EACCES, 'Permission denied (outside sim)', n)
        self._event('utime', n)
        r = self.resolve(n)
        if r not in self.files and r not in self.dirs:
            raise FileNotFoundError(errno.ENOENT, 'No such file or directory', n)
        if ns is not None:
            self.mtimes[r] = ns[1] / 1e9
        elif times is not None:
            self.mtimes[r] = float(times[1])
        else:
            self.mtimes[r] = self.clock

    def getcwd(self):
        return self.cwd

    def chdir(self, path):
        n = self.resolve(self.norm(path))
        if n not in self.dirs:
            raise FileNotFoundError(errno.ENOENT, 'No such file or directory', n)
        self.cwd = n

    def rmtree(self, path, ignore_errors=False, onerror=None, **kw):
        n = self.norm(path)
        if not self.inside(n):
            self.gaps.append(('rmtree-outside', n))
            raise PermissionError(errno.EACCES, 'Permission denied (outside sim)', n)
        self._event('rmtree', n)
        r = self.resolve(n)
        for coll in (self.files, self.links):
            for p in list(coll):
                if p.startswith(r + '/'):
                    del coll[p]
        for p in list(self.dirs):
            if p == r or p.startswith(r + '/'):
                self.dirs.discard(p)

    def mkdtemp(self, suffix=None, prefix=None, dir=None):
        idx, f = self._event('mkdtemp', dir or '/sim/tmp')
        if f and f.get('kind') == 'mkdtemp_enospc':
            self.fired(f, idx, 'mkdtemp')
            raise OSError(errno.ENOSPC, 'No space left on device (sim)', '/sim/tmp')
        if self.tmp_count < len(self.tmp_names):
            name = self.tmp_names[self.tmp_count]
        else:
            name = f'tmp{self.tmp_count:04d}'
        self.tmp_count += 1
        base = self.norm(dir) if dir else SIM_ROOT + '/tmp'
        p = base + '/' + (prefix or 'tmp') + name + (suffix or '')
        n = 0
        while p in self.dirs or p in self.files:      # like the real mkdtemp: never an existing path
            n += 1
            p = base + '/' + (prefix or 'tmp') + name + f'_{n}' + (suffix or '')
        self._mkparents(p + '/x')
        self.dirs.add(p)
        return p

    # ---- open ----------------------------------------------------------------------------------
    def open(self, file, mode='r', buffering=-1, encoding=None, errors=None, newline=None,
             closefd=True, opener=None):
        if isinstance(file, int):
            if file in self.fds:
                raw = self.fds[file]
                binary = 'b' in mode
                if buffering == 0:
                    return raw
                if raw.readable() and raw.writable():
                    buf = io.BufferedRandom(raw)
                elif raw.writable():
                    buf = io.BufferedWriter(raw)
                else:
                    buf = io.BufferedReader(raw)
                if binary:
                    return buf
                return io.TextIOWrapper(buf, self.encoding if encoding in (None, 'locale') else encoding, errors, newline)
            return _real_open(file, mode, buffering, encoding, errors, newline, closefd, opener)
        n = self.norm(file)
        binary = 'b' in mode
        writing = any(c in mode for c in 'wax+')
        if not self.inside(n):
            if writing:
                self.gaps.append(('write-outside', n, mode))
                raise PermissionError(errno.EACCES, 'Permission denied (outside sim)', n)
            if not binary and encoding in (None, 'locale'):
                encoding = self.encoding
            return _real_open(file, mode, buffering, encoding, errors, newline, closefd, opener)
        idx, f = self._event('open', n, mode)
        f = f or {}
        k = f.get('kind')
        simple = {'open_enoent': (FileNotFoundError, errno.ENOENT), 'open_eacces': (PermissionError, errno.EACCES),
                  'open_eisdir': (IsADirectoryError, errno.EISDIR), 'open_eio': (OSError, errno.EIO),
                  'open_erofs': (OSError, errno.EROFS), 'open_enospc': (OSError, errno.ENOSPC),
                  'open_emfile': (OSError, errno.EMFILE)}
        if k in simple:
            self.fired(f, idx, 'open')
            exc, en = simple[k]
            raise exc(en, os.strerror(en) + ' (sim)', n)
        r = self.resolve(n)
        if r in self.dirs:
            raise IsADirectoryError(errno.EISDIR, 'Is a directory', n)
        exists = r in self.files
        if 'r' in mode and not exists:
            raise FileNotFoundError(errno.ENOENT, 'No such file or directory', os.fspath(file))
        if 'x' in mode and exists:
            raise FileExistsError(errno.EEXIST, 'File exists', n)
        if writing and os.path.dirname(r) not in self.dirs:
            raise FileNotFoundError(errno.ENOENT, 'No such file or directory', os.fspath(file))
        perm = self.modes.get(r, 0o644) if self.uid else 0o777
        if exists and 'r' in mode and not (perm & 0o400):
            raise PermissionError(errno.EACCES, 'Permission denied', os.fspath(file))
        if exists and writing and not (perm & 0o200):
            raise PermissionError(errno.EACCES, 'Permission denied', os.fspath(file))
        if 'w' in mode or ('x' in mode) or ('a' in mode and not exists):
            if 'w' in mode and exists:
                del self.files[r][:]       # truncate in place, like O_TRUNC
                self.log('truncate', r)
            elif not exists:
                self.files[r] = bytearray()
                self.log('create', r)
            self.mtimes[r] = self.clock
        data = self.files[r]
        if writing:
            self.log('opened_w', r, mode)         # the open succeeded (an 'open' event alone is only the attempt)
        if k == 'read_truncate' and 'r' in mode and not writing:
            self.fired(f, idx, 'open')
            data = bytearray(data[:f['k']])
        readable = 'r' in mode or '+' in mode
        writable = writing
        raw = SimRaw(self, r, data, readable, writable, 'a' in mode, f if k in (
            'read_eio_after', 'write_enospc_after', 'write_short_after', 'close_eio') else None, idx)
        if buffering == 0:
            if not binary:
                raise ValueError("can't have unbuffered text I/O")
            return raw
        if readable and writable:
            buf = io.BufferedRandom(raw)
        elif writable:
            buf = io.BufferedWriter(raw)
        else:
            buf = io.BufferedReader(raw)
        if binary:
            return buf
        if encoding in (None, 'locale'):
            encoding = self.encoding          # "locale" is what io.text_encoding() / pathlib pass for "the default"
        text = io.TextIOWrapper(buf, encoding, errors, newline)
        text.mode = mode
        return text

    # ---- file-descriptor level API (os.open / os.fdopen / os.write / os.close ...) -----------------------------
    FD_BASE = 100000

    def os_open(self, path, flags, mode=0o777, *, dir_fd=None):
        if dir_fd is not None or isinstance(path, int):
            return _real['open'](path, flags, mode, dir_fd=dir_fd)
        n = self.norm(path)
        if not self.inside(n):
            if flags & (os.O_WRONLY | os.O_RDWR | os.O_CREAT | os.O_TRUNC | os.O_APPEND):
                self.gaps.append(('os.open-write-outside', n))
                raise PermissionError(errno.EACCES, 'Permission denied (outside sim)', n)
            return _real['open'](path, flags, mode)
        acc = flags & (os.O_WRONLY | os.O_RDWR)
        m = 'r' if acc == 0 else ('r+' if acc == os.O_RDWR else 'w')
        # translate to the semantics of open(): creation / truncation / exclusivity are decided by the flags
        r = self.resolve(n)
        idx, f = self._event('open', n, f'os.open:{flags:#x}')
        f = f or {}
        k = f.get('kind')
        simple = {'open_enoent': errno.ENOENT, 'open_eacces': errno.EACCES, 'open_eisdir': errno.EISDIR,
                  'open_eio': errno.EIO, 'open_erofs': errno.EROFS, 'open_enospc': errno.ENOSPC, 'open_emfile': errno.EMFILE}
        if k in simple:
            self.fired(f, idx, 'open')
            raise OSError(simple[k], os.strerror(simple[k]) + ' (sim)', n)
        if r in self.dirs:
            if acc:
                raise IsADirectoryError(errno.EISDIR, 'Is a directory', n)
            raise OSError(errno.ENOSYS, 'directory descriptors are not modelled', n)
        exists = r in self.files
        if exists and (flags & os.O_CREAT) and (flags & os.O_EXCL):
            raise FileExistsError(errno.EEXIST, 'File exists', n)
        if not exists:
            if not (flags & os.O_CREAT):
                raise FileNotFoundError(errno.ENOENT, 'No such file or directory', n)
            if os.path.dirname(r) not in self.dirs:
                raise FileNotFoundError(errno.ENOENT, 'No such file or directory', n)
            self.files[r] = bytearray()
            self.modes[r] = mode & 0o777 & ~0o022
            self.log('create', r)
        else:
            perm = self.modes.get(r, 0o644) if self.uid else 0o777
            if acc and not (perm & 0o200):
                raise PermissionError(errno.EACCES, 'Permission denied', n)
            if not acc and not (perm & 0o400):
                raise PermissionError(errno.EACCES, 'Permission denied', n)
        if (flags & os.O_TRUNC) and acc:
            del self.files[r][:]
            self.log('truncate', r)
        if acc:
            self.log('opened_w', r, m)
            self.mtimes[r] = self.clock
        raw = SimRaw(self, r, self.files[r], acc != os.O_WRONLY, bool(acc), bool(flags & os.O_APPEND),
                     f if k in ('read_eio_after', 'write_enospc_after', 'write_short_after', 'close_eio') else None, idx)
        fd = self.FD_BASE + len(self.fds)
        self.fds[fd] = raw
        return fd

    def os_close(self, fd):
        if fd in self.fds:
            raw = self.fds.pop(fd)
            if not raw.closed:
                raw.close()
            return None
        return _real['close'](fd)

    def os_write(self, fd, data):
        if fd in self.fds:
            return self.fds[fd].write(data)
        return _real['write'](fd, data)

    def os_read(self, fd, n):
        if fd in self.fds:
            b = bytearray(n)
            got = self.fds[fd].readinto(b)
            return bytes(b[:got])
        return _real['read'](fd, n)

    def os_fstat(self, fd):
        if fd in self.fds:
            return self._stat_result(self.fds[fd]._path)
        return _real['fstat'](fd)

    def os_lseek(self, fd, pos, how):
        if fd in self.fds:
            return self.fds[fd].seek(pos, how)
        return _real['lseek'](fd, pos, how)

    def os_ftruncate(self, fd, length):
        if fd in self.fds:
            return self.fds[fd].truncate(length)
        return _real['ftruncate'](fd, length)

    def os_fsync(self, fd):
        if fd in self.fds:
            return None
        return _real['fsync'](fd)

    def snapshot(self):
        return {p: b2s(d) for p, d in sorted(self.files.items())}

    def mtime_snapshot(self):
        return {p: self.mtimes.get(p, self.clock_base()) for p in sorted(self.files)}


# ---------------------------------------------------------------------------------------------
# SimSet
# ---------------------------------------------------------------------------------------------
class _SimSetMeta(type):
    def __instancecheck__(cls, inst):
        return isinstance(inst, _real_set)

    def __subclasscheck__(cls, sub):
        return issubclass(sub, _real_set)


class SimSetState:
    seed = None
    log = []
    counter = {}


def _site():
    f = sys._getframe(2)
    while f is not None and f.f_globals.get('__name__', '').startswith('sim.'):
        f = f.f_back
    if f is None:
        return '?'
    return f'{os.path.basename(os.path.dirname(f.f_code.co_filename))}/{os.path.basename(f.f_code.co_filename)}:{f.f_lineno}'


POLICIES = ('identity', 'reverse', 'rotate', 'shuffle', 'short_first', 'long_first')


def _skey(x):
    return (type(x).__name__, x) if isinstance(x, (str, int, float)) else (type(x).__name__, repr(x))


def order_elements(elems, site, ordinal):
    try:
        base = sorted(elems, key=_skey)
    except TypeError:
        base = sorted(elems, key=repr)
    if SimSetState.seed is None or len(base) < 2:
        return base, 'identity'
    rnd = random.Random(f'{SimSetState.seed}:{site}:{ordinal}')
    pol = POLICIES[rnd.randrange(len(POLICIES))]
    if pol == 'reverse':
        base.reverse()
    elif pol == 'rotate':
        k = rnd.randrange(1, len(base))
        base = base[k:] + base[:k]
    elif pol == 'shuffle':
        rnd.shuffle(base)
    elif pol == 'short_first':
        base.sort(key=lambda x: (len(x) if isinstance(x, str) else 0))
    elif pol == 'long_first':
        base.sort(key=lambda x: -(len(x) if isinstance(x, str) else 0))
    return base, pol


class SimSet(_real_set, metaclass=_SimSetMeta):
    """A set whose iteration order is decided by the simulator (per creation site x ordinal)."""
    __slots__ = ('_site', '_ord')

    def __init__(self, *a):
        _real_set.__init__(self, *a)
        self._site = _site()
        c = SimSetState.counter
        self._ord = c[self._site] = c.get(self._site, 0) + 1

    def _tag(self, other_site=None):
        return self

    def __iter__(self):
        elems = list(_real_set.__iter__(self))
        ordered, pol = order_elements(elems, self._site, self._ord)
        if len(ordered) >= 2:
            SimSetState.log.append((self._site, len(ordered), pol))
        return iter(ordered)

    def __reduce__(self):
        return (_real_set, (list(_real_set.__iter__(self)),))

    def _wrap(self, res):
        if type(res) is _real_set:
            s = SimSet.__new__(SimSet)
            _real_set.__init__(s, res)
            s._site = self._site
            s._ord = self._ord
            return s
        return res

    def copy(self):
        return self._wrap(_real_set.copy(self))

    def union(self, *o):
        return self._wrap(_real_set.union(self, *o))

    def intersection(self, *o):
        return self._wrap(_real_set.intersection(self, *o))

    def difference(self, *o):
        return self._wrap(_real_set.difference(self, *o))

    def symmetric_difference(self, o):
        return self._wrap(_real_set.symmetric_difference(self, o))

    def __or__(self, o):
        return self._wrap(_real_set.__or__(self, o))

    def __and__(self, o):
        return self._wrap(_real_set.__and__(self, o))

    def __sub__(self, o):
        return self._wrap(_real_set.__sub__(self, o))

    def __xor__(self, o):
        return self._wrap(_real_set.__xor__(self, o))

    def __repr__(self):
        return '{' + ', '.join(repr(x) for x in self) + '}' if len(self) else 'set()'


def install_simset(seed):
    """Bind `set` in every bespokeasm module to SimSet and re-wrap module-level set constants."""
    SimSetState.seed = seed
    SimSetState.log = []
    SimSetState.counter = {}
    mods = [m for name, m in sorted(sys.modules.items())
            if m is not None and (name == 'bespokeasm' or name.startswith('bespokeasm.'))]
    mapping = {}
    for m in mods:
        d = m.__dict__
        for k, v in list(d.items()):
            if type(v) is _real_set:
                if id(v) not in mapping:
                    s = SimSet.__new__(SimSet)
                    _real_set.__init__(s, v)
                    s._site = f'const:{k}'
                    s._ord = 1
                    mapping[id(v)] = (v, s)
                d[k] = mapping[id(v)][1]
        d['set'] = SimSet
    return len(mapping)


# ---------------------------------------------------------------------------------------------
# installation of all seams in the child
# ---------------------------------------------------------------------------------------------
class StdCapture(io.TextIOWrapper):
    pass


class FaultyStdout(io.RawIOBase):
    """stdout/stderr sink; can raise EPIPE at the n-th write (fault kind 'stdout_epipe')."""

    def __init__(self, fs, name, fault):
        super().__init__()
        self.buf = bytearray()
        self.fs = fs
        self.sname = name
        self.fault = fault
        self.nwrites = 0

    def writable(self):
        return True

    def isatty(self):
        return False

    def fileno(self):
        raise io.UnsupportedOperation('fileno')

    def write(self, b):
        self.nwrites += 1
        f = self.fault
        if f and self.nwrites >= f.get('k', 1):
            self.fs.fired(f, -1, self.sname)
            raise BrokenPipeError(errno.EPIPE, 'Broken pipe (sim)')
        self.buf.extend(bytes(b))
        return len(b)


def install(world):
    """Install every seam for `world` in the current (child) process. Returns the SimFS."""
    import shutil
    import tempfile
    import time
    fs = SimFS(world)
    for name in ('stat', 'lstat', 'listdir', 'mkdir', 'rmdir', 'remove', 'unlink', 'rename', 'replace',
                 'chmod', 'utime', 'getcwd', 'chdir', 'access', 'readlink', 'scandir', 'open', 'close', 'write', 'read',
                 'fstat', 'lseek', 'ftruncate', 'fsync'):
        _real.setdefault(name, getattr(os, name))
    os.open = fs.os_open
    os.close = fs.os_close
    os.write = fs.os_write
    os.read = fs.os_read
    os.fstat = fs.os_fstat
    os.lseek = fs.os_lseek
    os.ftruncate = fs.os_ftruncate
    os.fsync = fs.os_fsync
    os.stat = fs.stat
    os.lstat = fs.lstat
    os.listdir = fs.listdir
    os.mkdir = fs.mkdir
    os.rmdir = fs.rmdir
    os.remove = fs.remove
    os.unlink = fs.remove
    os.rename = fs.rename
    os.replace = fs.rename
    os.chmod = fs.chmod
    os.utime = fs.utime
    os.getcwd = fs.getcwd
    os.chdir = fs.chdir
    os.access = fs.access
    os.getuid = os.geteuid = lambda: fs.uid
    os.readlink = fs.readlink

    class SimDirEntry:
        def __init__(self, d, name):
            self.name = name
            self.path = os.path.join(d, name)

        def __fspath__(self):
            return self.path

        def stat(self, *, follow_symlinks=True):
            return fs.stat(self.path, follow_symlinks=follow_symlinks)

        def is_dir(self, *, follow_symlinks=True):
            try:
                return statmod.S_ISDIR(self.stat(follow_symlinks=follow_symlinks).st_mode)
            except OSError:
                return False

        def is_file(self, *, follow_symlinks=True):
            try:
                return statmod.S_ISREG(self.stat(follow_symlinks=follow_symlinks).st_mode)
            except OSError:
                return False

        def is_symlink(self):
            try:
                return statmod.S_ISLNK(fs.lstat(self.path).st_mode)
            except OSError:
                return False

        def inode(self):
            return self.stat(follow_symlinks=False).st_ino

    class SimScandir:
        def __init__(self, d, names):
            self._it = iter([SimDirEntry(d, n) for n in names])

        def __iter__(self):
            return self

        def __next__(self):
            return next(self._it)

        def __enter__(self):
            return self

        def __exit__(self, *a):
            return False

        def close(self):
            pass

    def _scandir(path='.'):
        n = fs.norm(path) if not isinstance(path, int) else None
        if n is None or not fs.inside(n):
            return _real['scandir'](path)
        return SimScandir(os.fspath(path), fs.listdir(path))     # same (simulated) order as os.listdir
    os.scandir = _scandir
    builtins.open = fs.open
    io.open = fs.open
    # the harness interpreter may run in UTF-8 mode (C locale), where io.text_encoding(None) answers 'utf-8'; the
    # simulated process has the simulated locale, so "no encoding given" must stay "the locale's encoding"
    io.text_encoding = lambda encoding, stacklevel=2: 'locale' if encoding is None else encoding
    shutil.rmtree = fs.rmtree
    tempfile.mkdtemp = fs.mkdtemp
    tempfile.tempdir = SIM_ROOT + '/tmp'          # tempfile.gettempdir() answers with the simulated temp directory
    fs.dirs.add(SIM_ROOT + '/tmp')

    # environment
    os.environ.clear()
    os.environ.update(world.get('env', {}))

    # clock
    def _time():
        return fs.tick()
    _rl, _rg = time.localtime, time.gmtime
    time.time = _time
    time.time_ns = lambda: int(fs.tick() * 1e9)
    time.localtime = lambda secs=None: _rl(fs.tick() if secs is None else secs)
    time.gmtime = lambda secs=None: _rg(fs.tick() if secs is None else secs)
    time.monotonic = _time
    time.perf_counter = _time
    try:
        import datetime as _dt
        _odt, _od = _dt.datetime, _dt.date

        class SimDateTime(_odt):
            @classmethod
            def now(cls, tz=None):
                return _odt.fromtimestamp(fs.tick(), tz)

            @classmethod
            def utcnow(cls):
                return _odt.utcfromtimestamp(fs.tick())

            @classmethod
            def today(cls):
                return _odt.fromtimestamp(fs.tick())

        class SimDate(_od):
            @classmethod
            def today(cls):
                return _od.fromtimestamp(fs.tick())
        _dt.datetime, _dt.date = SimDateTime, SimDate
        for name, m in list(sys.modules.items()):
            if m is not None and name.startswith('bespokeasm'):
                for k, v in list(m.__dict__.items()):
                    if v is _odt:
                        m.__dict__[k] = SimDateTime
                    elif v is _od:
                        m.__dict__[k] = SimDate
    except Exception:       # pragma: no cover
        pass

    # stdio
    std_faults = {f.get('stream', 'stdout'): f for f in world.get('faults', []) if f.get('kind') == 'stdout_epipe'}
    out_raw = FaultyStdout(fs, 'stdout', std_faults.get('stdout'))
    err_raw = FaultyStdout(fs, 'stderr', std_faults.get('stderr'))
    enc = world.get('stdout_encoding', world.get('encoding', 'utf-8'))
    # 'line': like a terminal (every line reaches the sink at once); 'block': like a pipe or file (final flush)
    sys.stdout = io.TextIOWrapper(io.BufferedWriter(out_raw), encoding=enc, errors='strict',
                                  line_buffering=(world.get('stdout_mode') == 'line'))
    sys.stderr = io.TextIOWrapper(io.BufferedWriter(err_raw), encoding=enc, errors='backslashreplace',
                                  line_buffering=False)
    sys.stdin = io.TextIOWrapper(io.BytesIO(b''), encoding=enc)
    fs.out_raw, fs.err_raw = out_raw, err_raw

    # set ordering
    fs.n_const_sets = install_simset(world.get('set_seed'))
    sys.argv = list(world['argv'])
    return fs
