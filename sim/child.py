"""Fork one child per simulated `bespokeasm` process run and collect its outcome.

run_world(world) -> result dict:
  exit        int exit status exactly as CPython would produce it (or None for harness outcomes)
  kind        'exit' | 'exception' | 'step_budget' | 'wall_timeout' | 'crash'
  exc         'TypeName: message' for exception / message for sys.exit(str)
  stdout, stderr   captured text (latin-1 of the bytes written)
  events      FS event log [(idx, op, path, detail)]
  files       final SimFS snapshot {path: latin-1 text}
  steps       step-clock events consumed
  set_log     [(site, n, policy)] non-trivial SimSet iterations
  fired       faults that actually fired
  gaps        unmodelled real-FS calls on simulated paths (=> HARNESS-GAP)
"""
import os
import pickle
import select
import signal
import sys
import time as _time_mod

REPO_SRC = os.environ.get('VERIF_REPO', '/repo') + '/src'
WALL_TIMEOUT = float(os.environ.get('VERIF_WALL_TIMEOUT', '20'))
_real_monotonic = _time_mod.monotonic
_PRELOADED = False
COVERAGE = bool(os.environ.get('VERIF_COVERAGE'))     # read before the simulated environment replaces os.environ


def preload():
    """Import the real package (and its heavy dependencies) once in the parent so that a fork is cheap.
    The parent never runs an assembly, so every child starts from pristine process-global state."""
    global _PRELOADED
    if _PRELOADED:
        return
    if REPO_SRC not in sys.path:
        sys.path.insert(0, REPO_SRC)
    import bespokeasm
    assert os.path.realpath(bespokeasm.__file__).startswith(os.path.realpath(REPO_SRC)), \
        f'bespokeasm imported from {bespokeasm.__file__}, expected {REPO_SRC}'
    import bespokeasm.__main__  # noqa
    import zipfile, tempfile, shutil, plistlib, json, yaml, datetime, encodings.latin_1, encodings.ascii  # noqa
    import encodings.utf_8, encodings.idna  # noqa
    import intelhex  # noqa
    _PRELOADED = True


class StepBudgetExceeded(BaseException):
    pass


def _child_main(world, wfd):
    from sim import world as W
    result = {'exit': None, 'kind': 'crash', 'exc': None}
    fs = None
    steps = [0]
    budget = int(world.get('step_budget', 2_000_000))

    def finish():
        try:
            for s in (sys.stdout, sys.stderr):
                try:
                    s.flush()
                except BaseException as e:   # flush failure at exit => 120 like CPython
                    if result['exit'] == 0:
                        result['exit'] = 120
                        result['exc'] = f'flush: {type(e).__name__}: {e}'
            if fs is not None:
                result['stdout'] = W.b2s(fs.out_raw.buf)
                result['stderr'] = W.b2s(fs.err_raw.buf)
                result['events'] = fs.events
                result['files'] = fs.snapshot()
                result['dirs'] = sorted(fs.dirs)
                result['mtimes'] = fs.mtime_snapshot()
                result['fired'] = fs.fired_log
                result['gaps'] = fs.gaps + gaps
                result['set_log'] = W.SimSetState.log
                result['clock'] = fs.clock
            result['steps'] = steps[0]
            data = pickle.dumps(result, protocol=4)
        except BaseException as e:       # pragma: no cover
            data = pickle.dumps({'exit': None, 'kind': 'crash', 'exc': f'finish failed: {e!r}'})
        with os.fdopen(wfd, 'wb', closefd=True) as w:
            w.write(data)
        os._exit(0)

    gaps = []

    def audit(event, args):
        if fs is None:
            return
        if event in ('open', 'os.listdir', 'os.mkdir', 'os.remove', 'os.rename', 'os.rmdir', 'os.chmod',
                     'os.scandir', 'os.utime', 'os.truncate', 'os.link', 'os.symlink', 'shutil.copyfile',
                     'shutil.move', 'shutil.rmtree', 'shutil.copytree'):
            a0 = args[0] if args else None
            if isinstance(a0, (str, bytes)) and event != 'shutil.copyfile':
                p = a0 if isinstance(a0, str) else a0.decode('utf-8', 'replace')
                if p.startswith('/sim/') or p == '/sim':
                    gaps.append((event, p))

    try:
        import resource
        resource.setrlimit(resource.RLIMIT_AS, (4 << 30, 4 << 30))
        resource.setrlimit(resource.RLIMIT_CORE, (0, 0))
    except Exception:
        pass
    try:
        fs = W.install(world)
        sys.addaudithook(audit)
        mon = sys.monitoring
        TOOL = 4
        mon.use_tool_id(TOOL, 'simclock')
        E = mon.events

        def tick(*a):
            steps[0] += 1
            if steps[0] > budget:
                mon.set_events(TOOL, 0)
                result['kind'] = 'step_budget'
                result['exit'] = None
                finish()
        mon.register_callback(TOOL, E.PY_START, tick)
        mon.register_callback(TOOL, E.JUMP, tick)
        mon.set_events(TOOL, E.PY_START | E.JUMP)
        if COVERAGE:
            # reach measurement (tools_coverage.py): which lines of the package did this run execute
            covered = set()
            src = os.path.realpath(REPO_SRC)

            def on_line(code, line):
                fn = code.co_filename
                if fn.startswith(src):
                    covered.add((fn[len(src) + 1:], line))
                return mon.DISABLE
            mon.use_tool_id(5, 'simcov')
            mon.register_callback(5, E.LINE, on_line)
            mon.set_events(5, E.LINE)
            result['covered'] = covered
        try:
            import bespokeasm.__main__ as M
            rc = M.entry_point()
            result['kind'] = 'exit'
            result['exit'] = 0 if rc is None else (rc if isinstance(rc, int) else 1)
        except SystemExit as e:
            result['kind'] = 'exit'
            c = e.code
            if c is None:
                result['exit'] = 0
            elif isinstance(c, int):
                result['exit'] = c & 0xFF
            else:
                result['exit'] = 1
                result['exc'] = str(c)
                try:
                    print(c, file=sys.stderr)
                except BaseException:
                    pass
        except BaseException as e:
            result['kind'] = 'exception'
            result['exit'] = 1
            result['exc'] = f'{type(e).__name__}: {e}'
            try:
                import traceback
                tb = traceback.extract_tb(e.__traceback__)
                result['where'] = [f'{os.path.basename(f.filename)}:{f.lineno}:{f.name}' for f in tb[-4:]]
            except BaseException:
                pass
        finally:
            mon.set_events(TOOL, 0)
    except BaseException as e:      # harness failure inside the child
        result['kind'] = 'crash'
        result['exc'] = f'harness: {type(e).__name__}: {e}'
        import traceback
        result['where'] = traceback.format_exc()[-1500:]
    finish()


def run_world(world, wall_timeout=None):
    """Run one simulated process. Never raises for failures of the simulated program."""
    preload()
    wall_timeout = wall_timeout or WALL_TIMEOUT
    rfd, wfd = os.pipe()
    sys.stdout.flush()
    sys.stderr.flush()
    pid = os.fork()
    if pid == 0:
        try:
            os.close(rfd)
            _child_main(world, wfd)
        finally:
            os._exit(97)
    os.close(wfd)
    chunks = []
    deadline = _real_monotonic() + wall_timeout
    timed_out = False
    while True:
        left = deadline - _real_monotonic()
        if left <= 0:
            timed_out = True
            break
        r, _, _ = select.select([rfd], [], [], left)
        if not r:
            timed_out = True
            break
        b = os.read(rfd, 1 << 20)
        if not b:
            break
        chunks.append(b)
    os.close(rfd)
    if timed_out:
        try:
            os.kill(pid, signal.SIGKILL)
        except ProcessLookupError:
            pass
    _, status = os.waitpid(pid, 0)
    if timed_out:
        return {'exit': None, 'kind': 'wall_timeout', 'exc': f'no result within {wall_timeout}s', 'events': [],
                'files': {}, 'steps': 0, 'stdout': '', 'stderr': '', 'fired': [], 'gaps': [], 'set_log': []}
    data = b''.join(chunks)
    if not data:
        sig = os.WTERMSIG(status) if os.WIFSIGNALED(status) else None
        return {'exit': None, 'kind': 'crash', 'exc': f'child died status={status} sig={sig}', 'events': [],
                'files': {}, 'steps': 0, 'stdout': '', 'stderr': '', 'fired': [], 'gaps': [], 'set_log': []}
    res = pickle.loads(data)
    for k, v in (('events', []), ('files', {}), ('stdout', ''), ('stderr', ''), ('fired', []), ('gaps', []),
                 ('set_log', []), ('steps', 0)):
        res.setdefault(k, v)
    return res
