"""Cross-process tier: run one world in a REAL interpreter on the REAL file system (a private directory under /dev/shm,
removed at once).  Used where the simulator cannot reach: real PYTHONHASHSEED values, `python -O` (asserts compiled
away), the real codecs/locale machinery.  Also cross-validates SimFS (same world, same outcome expected)."""
import os
import shutil
import subprocess

from sim import child

_COUNTER = [0]


def run_real(world, sim_root, hashseed=0, pyopt=0, env_extra=None, timeout=60, keep=('.bin', '.txt')):
    """world: a SimWorld dict whose files all live under `sim_root`. Returns {'kind','exit','stdout','stderr','files'}
    with file paths mapped back to simulated names."""
    _COUNTER[0] += 1
    base = f'/dev/shm/verif_x_{os.getpid()}_{_COUNTER[0]}'
    if not os.path.isdir('/dev/shm'):
        base = os.path.join(os.environ.get('TMPDIR', '/tmp'), os.path.basename(base))
    root = base + '/root'
    try:
        for p, content in world['files'].items():
            if not p.startswith(sim_root):
                continue
            rp = root + p[len(sim_root):]
            os.makedirs(os.path.dirname(rp), exist_ok=True)
            with open(rp, 'wb') as f:
                f.write(content.encode('latin-1'))
        for d in world.get('dirs', []):
            if d.startswith(sim_root):
                os.makedirs(root + d[len(sim_root):], exist_ok=True)
        for lp, tgt in world.get('links', {}).items():
            if lp.startswith(sim_root):
                rl = root + lp[len(sim_root):]
                os.makedirs(os.path.dirname(rl), exist_ok=True)
                rt = root + tgt[len(sim_root):] if tgt.startswith(sim_root) else tgt
                if not os.path.lexists(rl):
                    os.symlink(rt, rl)
        cwd = world.get('cwd', sim_root)
        rcwd = root + cwd[len(sim_root):] if cwd.startswith(sim_root) else root
        os.makedirs(rcwd, exist_ok=True)
        py = '/venv/bin/python' if os.path.exists('/venv/bin/python') else 'python3'
        env = {'PYTHONHASHSEED': str(hashseed), 'PYTHONPATH': child.REPO_SRC, 'PYTHONDONTWRITEBYTECODE': '1',
               'HOME': base + '/home', 'PATH': '/usr/bin:/bin', 'LANG': 'C.UTF-8', 'PYTHONUTF8': '1',
               'TMPDIR': base + '/tmp'}          # whatever the tool leaves in its temp directory goes away with `base`
        os.makedirs(base + '/tmp', exist_ok=True)
        if pyopt:
            env['PYTHONOPTIMIZE'] = str(pyopt)
        env.update(env_extra or {})
        argv = [a.replace(sim_root, root) if isinstance(a, str) else a for a in world['argv'][1:]]
        before = set()
        for dp, dn, fn in os.walk(root):
            for n in fn:
                before.add(os.path.join(dp, n))
        try:
            cp = subprocess.run([py, '-m', 'bespokeasm'] + argv, cwd=rcwd, env=env, capture_output=True, timeout=timeout)
            kind, rc = 'exit', cp.returncode
            so, se = cp.stdout.decode('latin-1'), cp.stderr.decode('latin-1')
        except subprocess.TimeoutExpired:
            kind, rc, so, se = 'wall_timeout', None, '', ''
        files = {}
        for dp, dn, fn in os.walk(root):
            for n in fn:
                rp = os.path.join(dp, n)
                if rp not in before or rp.endswith(tuple(keep)):
                    with open(rp, 'rb') as fh:
                        files[sim_root + rp[len(root):]] = fh.read().decode('latin-1')
        return {'kind': kind, 'exit': rc, 'stdout': so.replace(root, sim_root), 'stderr': se.replace(root, sim_root)[-400:],
                'files': files}
    finally:
        shutil.rmtree(base, ignore_errors=True)
