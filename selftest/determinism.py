"""./check selftest-determinism : prove that one seed is one exactly repeatable exploration.

Every property's exploration is run for a sample of sub-seeds under several harness configurations - different
worker counts, a different PYTHONHASHSEED of the harness interpreter (inherited by every forked child), and twice under
the same configuration - each in a fresh interpreter.  The per-sub-seed result digests must be identical everywhere.
"""
import json
import os
import subprocess
import sys
import time

SAMPLE = {'C14': 20, 'C15': 56, 'C17': 56, 'C20': 40, 'C08': 16, 'C09': 16}
CONFIGS = [('w16-h0', 16, '0'), ('w16-h0-again', 16, '0'), ('w4-h0', 4, '0'), ('w16-h7', 16, '7'), ('w7-h12345', 7, '12345')]
VERIF = os.path.dirname(os.path.dirname(os.path.abspath(__file__)))


def digests(seed, ids):
    """runs inside a fresh interpreter (see main): prints {id: {subseed: digest}}"""
    import importlib
    from sim import runner, child
    child.preload()
    out = {}
    for pid in ids:
        mod = importlib.import_module('props.' + pid.lower())
        cfg = dict(mod.TIERS['quick'])
        cfg['tier'] = 'quick'
        subseeds = [seed * (1 << 32) + i for i in range(SAMPLE[pid])]
        results, skipped, errors, wall = runner.pool_map(mod.__name__, subseeds, cfg)
        out[pid] = {str(r['subseed']): r['digest'] for r in results}
        if errors:
            out[pid]['errors'] = [str(e)[:200] for e in errors]
    print('DIGESTS ' + json.dumps(out))
    return 0


def main(seed, rest):
    if rest and rest[0] == '--emit':
        return digests(seed, rest[1:])
    ids = rest or sorted(SAMPLE)
    t0 = time.time()
    table = {}
    for name, workers, hs in CONFIGS:
        env = dict(os.environ, VERIF_WORKERS=str(workers), VERIF_HARNESS_HASHSEED=hs, VERIF_SEED=str(seed))
        cp = subprocess.run(['./check', 'selftest-determinism', '--emit'] + ids, cwd=VERIF, env=env,
                            capture_output=True, text=True, timeout=3000)
        line = [ln for ln in cp.stdout.split('\n') if ln.startswith('DIGESTS ')]
        if not line:
            print(cp.stdout[-2000:], cp.stderr[-2000:])
            print(f'HARNESS-ERROR configuration {name} produced no digests')
            return 2
        table[name] = json.loads(line[0][8:])
        print(f'  configuration {name}: {sum(len(v) for v in table[name].values())} sub-seed digests '
              f'({time.time() - t0:.0f}s elapsed)', flush=True)
    ref = table[CONFIGS[0][0]]
    bad = 0
    total = 0
    for name in table:
        for pid in ids:
            for sub, dg in ref[pid].items():
                total += 1
                if table[name][pid].get(sub) != dg:
                    bad += 1
                    if bad <= 10:
                        print(f'  MISMATCH property={pid} subseed={sub} config={name}: {table[name][pid].get(sub)} != {dg}')
    n_sub = sum(len(v) for v in ref.values())
    print(f'selftest-determinism: {n_sub} sub-seeds x {len(CONFIGS)} configurations, {total} comparisons, '
          f'{bad} mismatches, {time.time() - t0:.0f}s')
    os.makedirs(os.path.join(VERIF, 'evidence'), exist_ok=True)
    with open(os.path.join(VERIF, 'evidence', 'selftest-determinism.txt'), 'w') as f:
        f.write(f'seed={seed} subseeds={n_sub} configurations={[c[0] for c in CONFIGS]} comparisons={total} '
                f'mismatches={bad}\n')
    if bad:
        print('HARNESS-ERROR exploration is not deterministic')
        return 2
    return 0
