"""./check selftest-mutants [seeded ids...] : sensitivity self-test.

Every seeded change under /verif/seeded/<id>/ (a realistic property-breaking patch written by an independent
sub-agent; it compiles and passes the 81 repository tests) is applied to a scratch worktree of /repo outside /repo and
/verif, the quick tier of the check(s) listed in its meta.json 'expected_detectors' is run against that tree
(VERIF_REPO), and the worktree is removed.  A seeded change that is not reported by any expected detector fails
the self-test.  Nothing is ever applied to /repo itself and evidence/ is not touched (VERIF_EVIDENCE_DIR).
"""
import json
import os
import sys
import time

VERIF = os.path.dirname(os.path.dirname(os.path.abspath(__file__)))


def main(seed, rest):
    sys.path.insert(0, VERIF)
    import tools_seeded
    ids = rest or sorted(d for d in os.listdir(os.path.join(VERIF, 'seeded'))
                         if os.path.exists(os.path.join(VERIF, 'seeded', d, 'patch.diff')))
    missed = []
    t0 = time.time()
    for sid in ids:
        meta = json.load(open(os.path.join(VERIF, 'seeded', sid, 'meta.json')))
        if meta.get('not_chased'):
            print(f'  {sid}: not chased ({meta["not_chased"]})', flush=True)
            continue
        expected = meta.get('expected_detectors') or meta.get('detected_by') or [meta['property']]
        res = tools_seeded.detect(sid, expected, record=False)
        hit = [c for c, v in res.items() if v['exit'] == 1]
        print(f'  {sid}: expected {expected} -> detected by {hit}', flush=True)
        if not hit:
            missed.append(sid)
    print(f'selftest-mutants: {len(ids)} seeded changes, {len(missed)} missed {missed}, {time.time() - t0:.0f}s')
    return 2 if missed else 0
