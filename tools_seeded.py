#!/venv/bin/python
"""Confirm a seeded change and run the checks against it.

usage: tools_seeded.py confirm <src dir with patch.diff + demo> <seeded id> <property>   (copies into seeded/<id>/, writes meta.json)
       tools_seeded.py detect <seeded id> [check ids...]   (applies seeded/<id>/patch.diff to a scratch worktree, runs quick checks)
The scratch worktree lives in /tmp (outside /repo and /verif) and is removed afterwards.
"""
import json, os, shutil, subprocess, sys, time

VERIF = os.path.dirname(os.path.abspath(__file__))
PY = '/venv/bin/python'


def sh(cmd, **kw):
    return subprocess.run(cmd, shell=True, capture_output=True, text=True, **kw)


def scratch(name):
    d = f'/tmp/seeded_wt_{name}'
    sh(f'git -C /repo worktree remove --force {d}')
    r = sh(f'git -C /repo worktree add -q {d} HEAD')
    assert r.returncode == 0, r.stderr
    return d


def drop(d):
    sh(f'git -C /repo worktree remove --force {d}')
    shutil.rmtree(d, ignore_errors=True)


def find_demo(d):
    for n in ('demo.sh', 'demo.py'):
        if os.path.exists(os.path.join(d, n)):
            return n
    raise SystemExit(f'no demo in {d}')


def run_demo(d, tree):
    n = find_demo(d)
    cmd = f'timeout 300 bash {n} {tree}' if n.endswith('.sh') else f'timeout 300 {PY} {n} {tree}'
    r = sh(cmd, cwd=d)
    return r.returncode, (r.stdout + r.stderr)[-600:]


def confirm(src, sid, prop):
    dst = os.path.join(VERIF, 'seeded', sid)
    if os.path.exists(dst):
        shutil.rmtree(dst)
    shutil.copytree(src, dst)
    wt = scratch(sid)
    meta = {'id': sid, 'property': prop, 'base_commit': sh('git -C /repo rev-parse HEAD').stdout.strip()}
    try:
        rc_clean, out_clean = run_demo(dst, wt)
        a = sh(f'git -C {wt} apply {dst}/patch.diff')
        assert a.returncode == 0, 'patch does not apply: ' + a.stderr
        t = sh(f'cd {wt} && {PY} -m pytest -q -p no:cacheprovider 2>&1 | tail -1')
        rc_mut, out_mut = run_demo(dst, wt)
        meta.update({'demo': find_demo(dst), 'demo_rc_clean_tree': rc_clean, 'demo_rc_with_change': rc_mut,
                     'tests_with_change': t.stdout.strip(), 'demo_output_with_change': out_mut[-300:],
                     'files_touched': sh(f'git -C {wt} diff --stat | head -8').stdout.strip().split('\n')})
        meta['confirmed'] = (rc_clean == 0 and rc_mut != 0 and '81 passed' in t.stdout)
    finally:
        drop(wt)
    readme = os.path.join(dst, 'README.md')
    if os.path.exists(readme):
        meta['needs_to_manifest'] = 'see README.md (written by the independent sub-agent)'
    mp = os.path.join(dst, 'meta.json')
    old = {}
    with open(mp, 'w') as f:
        json.dump(meta, f, indent=1)
    print(json.dumps(meta, indent=1))
    return meta['confirmed']


def detect(sid, checks, record=True):
    dst = os.path.join(VERIF, 'seeded', sid)
    wt = scratch(sid + '_det')
    res = {}
    try:
        a = sh(f'git -C {wt} apply {dst}/patch.diff')
        assert a.returncode == 0, a.stderr
        for c in checks:
            t0 = time.time()
            env = dict(os.environ, VERIF_REPO=wt, VERIF_MAX_REPORTS='2', VERIF_EVIDENCE_DIR=f'/tmp/seeded_ev_{sid}')
            r = subprocess.run(f'timeout 1500 ./check {c} --tier quick', shell=True, cwd=VERIF, env=env,
                               capture_output=True, text=True)
            viol = [ln for ln in r.stdout.split('\n') if ln.startswith('VIOLATION') or ln.strip().startswith('class=')]
            res[c] = {'exit': r.returncode, 'wall_s': round(time.time() - t0, 1),
                      'violations': [v[:260] for v in viol[:4]]}
            if record:
                print(sid, c, 'exit', r.returncode, f'{time.time()-t0:.0f}s', viol[:2])
    finally:
        drop(wt)
        shutil.rmtree(f'/tmp/seeded_ev_{sid}', ignore_errors=True)
    if not record:
        return res
    mp = os.path.join(dst, 'meta.json')
    meta = json.load(open(mp))
    meta.setdefault('detection', {}).update(res)
    meta['detected_by'] = sorted(c for c, v in meta['detection'].items() if v['exit'] == 1)
    meta['what_was_run'] = ('patch applied to a scratch worktree of /repo HEAD under /tmp (removed afterwards); '
                            '`VERIF_REPO=<worktree> ./check <ID> --tier quick` for each listed check')
    json.dump(meta, open(mp, 'w'), indent=1)
    return res


if __name__ == '__main__':
    if sys.argv[1] == 'confirm':
        ok = confirm(sys.argv[2], sys.argv[3], sys.argv[4])
        sys.exit(0 if ok else 1)
    elif sys.argv[1] == 'detect':
        detect(sys.argv[2], sys.argv[3:])
