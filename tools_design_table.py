#!/venv/bin/python
"""prints the markdown table of seeded changes x checks from seeded/*/meta.json and splices it into DESIGN.md"""
import json, os, glob, re
HERE = os.path.dirname(os.path.abspath(__file__))
CHECKS = ['C08', 'C09', 'C14', 'C15', 'C17', 'C20']
SUMMARY = json.load(open(os.path.join(HERE, 'seeded', 'summaries.json'))) if os.path.exists(os.path.join(HERE, 'seeded', 'summaries.json')) else {}
rows = ['| seeded change | breaks | what it needs to manifest | ' + ' | '.join(CHECKS) + ' |', '|---|---|---|' + '---|' * len(CHECKS)]
for mp in sorted(glob.glob(os.path.join(HERE, 'seeded', '*', 'meta.json'))):
    m = json.load(open(mp))
    det = m.get('detection', {})
    cells = []
    for c in CHECKS:
        if c not in det:
            cells.append('-')
        else:
            cells.append('**caught**' if det[c]['exit'] == 1 else ('quiet' if det[c]['exit'] == 0 else f'exit {det[c]["exit"]}'))
    rows.append(f'| {m["id"]} | {m["property"]} | {SUMMARY.get(m["id"], "see seeded/" + m["id"] + "/README.md")} | ' + ' | '.join(cells) + ' |')
table = '\n'.join(rows)
p = os.path.join(HERE, 'DESIGN.md')
s = open(p).read()
if 'SEEDED_TABLE_PLACEHOLDER' in s:
    s = s.replace('SEEDED_TABLE_PLACEHOLDER', '<!-- seeded-table-begin -->\n' + table + '\n<!-- seeded-table-end -->')
else:
    s = re.sub(r'<!-- seeded-table-begin -->.*?<!-- seeded-table-end -->', lambda _: '<!-- seeded-table-begin -->\n' + table + '\n<!-- seeded-table-end -->', s, flags=re.S)
open(p, 'w').write(s)
print(table)
