#!/bin/bash
# validates MANIFEST.json and every evidence file against the schemas
python3-vt - <<'PYEOF'
import json, jsonschema, glob
jsonschema.validate(json.load(open('/verif/MANIFEST.json')), json.load(open('/root/.vp/MANIFEST.schema.json')))
for p in sorted(glob.glob('/verif/evidence/*.json')):
    jsonschema.validate(json.load(open(p)), json.load(open('/root/.vp/EVIDENCE.schema.json')))
    print('ok', p)
print('manifest ok')
PYEOF
