#!/bin/bash
# soak: thorough tier of every check under a seed other than the default (intended for `vp run`)
cd "$(dirname "$0")"
SEED="${1:-777}"
for id in C14 C15 C17 C20 C08 C09; do
  echo "=== $id seed=$SEED $(date +%H:%M:%S)"
  VERIF_SEED=$SEED VERIF_WORKERS="${VERIF_WORKERS:-10}" ./check $id --tier thorough 2>&1 | grep -v "^KNOWN-FINDING" | tail -12 | cut -c1-600
  cp evidence/$id.json /tmp/soak_evidence_${id}_$SEED.json 2>/dev/null
done
echo SOAK-DONE
