#!/bin/bash
# runs every seeded change against the quick tier of every check (scratch worktrees under /tmp, removed afterwards)
# and records the outcome in seeded/<id>/meta.json.  Intended for `vp run -- ./tools_crossdetect.sh` (isolated snapshot).
cd "$(dirname "$0")"
for d in seeded/*/; do
  sid=$(basename "$d")
  [ -f "$d/patch.diff" ] || continue
  checks="C08 C09 C14 C15 C17 C20"
  # OWN=1: the check of the property the change was written against, plus every check that caught it before
  [ -n "$OWN" ] && checks=$(/venv/bin/python -c "import json,sys; m=json.load(open('$d/meta.json')); print(' '.join(sorted(set(['${sid%%-*}'] + m.get('detected_by', [])))))")
  VERIF_WORKERS="${VERIF_WORKERS:-8}" ./tools_seeded.py detect "$sid" $checks 2>&1 | grep -E "^$sid " | cut -c1-160
done
mkdir -p /tmp/crossdetect_out && for d in seeded/*/; do cp "$d/meta.json" "/tmp/crossdetect_out/$(basename $d).json"; done
echo CROSSDETECT-DONE
