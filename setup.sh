#!/bin/bash
# Offline setup: nothing to compile. Verify the interpreter, that bespokeasm is importable from /repo/src,
# and that hypothesis is available (install from the offline wheelhouse if it is missing).
set -e
cd "$(dirname "$0")"
PY=/venv/bin/python
$PY -c "import hypothesis" 2>/dev/null || /venv/bin/pip install --no-index --find-links /opt/veriftools/wheels hypothesis
PYTHONPATH="$PWD:${VERIF_REPO:-/repo}/src" PYTHONDONTWRITEBYTECODE=1 $PY - <<'PYEOF'
import os, bespokeasm, click, yaml, intelhex, hypothesis
repo = os.environ.get('VERIF_REPO', '/repo')
assert os.path.realpath(bespokeasm.__file__).startswith(os.path.realpath(repo) + '/src'), bespokeasm.__file__
print('setup ok: bespokeasm from', bespokeasm.__file__, 'hypothesis', hypothesis.__version__)
PYEOF
mkdir -p evidence replays
