#!/venv/bin/python
"""Builds the witness case files under findings/ for known (open or fixed) findings.  Run by hand; the
files are committed.  usage: tools_witness.py  (writes findings/*.json)"""
import json, os, sys
sys.path.insert(0, os.path.dirname(os.path.abspath(__file__)))
from sim import gen

HERE = os.path.dirname(os.path.abspath(__file__))
ISA = json.dumps(gen.simple_isa(), indent=1)
ISA4 = gen.simple_isa()
ISA4['operand_sets']['imm4'] = {'operand_values': {'imm4': {'type': 'numeric', 'bytecode': {'value': 5, 'size': 4},
                                                             'argument': {'size': 4, 'byte_align': False}}}}
ISA4['instructions']['x4'] = {'bytecode': {'value': 3, 'size': 8}, 'operands': {'count': 1, 'operand_sets': {'list': ['imm4']}}}
ISA4 = json.dumps(ISA4, indent=1)


def c14(prog, vclass, **kw):
    case = {'isa_text': kw.pop('isa', ISA), 'isa_name': 'isa.json', 'prog': prog, 'opts': [], 'binary': True,
            'includes': {}}
    case.update(kw)
    return {'property': 'C14', 'violation_class': vclass, 'case': case}


W = {
 'C14-zero-length-last-line-hang': c14(['  .byte 1', '  .fill 0, 0'], 'T-step-budget-exceeded', step_budget=400000),
 'C14-listing-exit-after-image': c14(['  .zero 0', '  .byte $EE'], 'FC1-image-altered-on-failure', opts=['-p', '-t', 'listing']),
 'C14-nonbyte-field-overflow': c14(['  .byte $EE'], 'FC3-accepted-invalid-E4-overflow-n4', isa=ISA4,
                                   inject={'pos': 0, 'line': '  x4 200'}, expect_fail='E4-overflow-n4'),
 'C14-regex-blowup': c14(['  .fill ' + 'a' * 60], 'T-wall-clock-exceeded', wall_verdict=True),
}

def c08(ops, vclass, pre=None, cli=None):
    return {'property': 'C08', 'violation_class': vclass,
            'case': {'pre_symbols': pre or {}, 'cli_symbols': cli or {}, 'ops': ops}}


def cmp(a, op, b):
    return {'form': 'cmp', 'terms': [a, b], 'op': op}


W.update({
 'C08-nested-chain-in-unselected-branch': c08(
     [{'op': 'if', 'cond': cmp(0, '==', 1)}, {'op': 'if', 'cond': cmp(1, '==', 1)}, {'op': 'marker', 'k': 8}],
     'CC-unselected-line-assembled'),
 'C08-condition-reevaluated-after-define': c08(
     [{'op': 'ifdef', 'name': 'SA', 'neg': True}, {'op': 'define', 'name': 'SA', 'value': 1}, {'op': 'marker', 'k': 8}],
     'CC-selected-line-dropped'),
 'C08-define-in-unselected-branch': c08(
     [{'op': 'if', 'cond': cmp(0, '==', 1)}, {'op': 'define', 'name': 'SA', 'value': 1}, {'op': 'endif'},
      {'op': 'ifdef', 'name': 'SA', 'neg': False}, {'op': 'marker', 'k': 8}],
     'CC-unselected-line-assembled'),
 'C08-create-memzone-in-unselected-branch': c08(
     [{'op': 'if', 'cond': cmp(0, '==', 1)}, {'op': 'mkzone', 'name': 'Z1', 'idx': 0}, {'op': 'else'},
      {'op': 'mkzone', 'name': 'Z1', 'idx': 0}],
     'CC-valid-history-rejected'),
 'C08-elif-after-ifdef-rejected': c08(
     [{'op': 'ifdef', 'name': 'SA', 'neg': False}, {'op': 'marker', 'k': 8}, {'op': 'elif', 'cond': cmp(1, '==', 1)},
      {'op': 'marker', 'k': 15}],
     'CC-valid-history-rejected'),
})

if __name__ == '__main__':
    os.makedirs(os.path.join(HERE, 'findings'), exist_ok=True)
    for name, body in W.items():
        with open(os.path.join(HERE, 'findings', name + '.json'), 'w') as f:
            json.dump(body, f, indent=1, sort_keys=True)
    print('wrote', len(W))
